/-
Model of the text *writer* for whole values (property C06): what the generated
`WriteToTextStream` methods (generated_code_templates: `struct_text_stream`,
`write_field_to_text_stream`, `write_read_only_field_to_text_stream`), the scalar views
(emboss_prelude.h, emboss_enum_view.h via emboss_text_util.h) and
`WriteArrayToTextStream` send to the stream.

For an `Ok` view every leaf is readable and `allow_partial_output` plays no role.  A view that
is not `Ok` can only be written with `allow_partial_output` (without it `Read()` CHECK-fails:
not modelled); its unreadable *atomic* fields / array elements (`!IsAggregate() && !Ok()`) are
the `skip` nodes of the value tree: left out of the text, mentioned in an `UNREADABLE` comment
when comments are on.  Aggregates are always visited.

The writer is modelled at the level of the `stream->Write(...)` calls: a list of
*pieces* (token, punctuation, white space, comment), whose concatenation is the text.
A value tree carries what the view reads (field values in the order the generated code
visits them = `fields_in_dependency_order`, fields with `has_x() == false` or marked
`Skip` left out).
-/
import Emboss.Model.Text
namespace Emboss.Text

inductive Piece where
  /-- a token that is not punctuation (number, name, `true`, float text) -/
  | word (w : List Char)
  /-- one of `: { } [ ] ,` -/
  | punct (c : Char)
  /-- blanks / newlines (possibly empty: an empty `current_indent()`) -/
  | space (s : List Char)
  /-- `#` followed by `body` (no line end inside; the line end is the next piece) -/
  | comment (body : List Char)
  deriving Repr, DecidableEq

def Piece.render : Piece → List Char
  | .word w => w
  | .punct c => [c]
  | .space s => s
  | .comment b => '#' :: b

def render : List Piece → List Char
  | [] => []
  | p :: ps => p.render ++ render ps

/-- The tokens a piece list carries (what the writer "emitted"). -/
def toks : List Piece → List (List Char)
  | [] => []
  | .word w :: ps => w :: toks ps
  | .punct c :: ps => [c] :: toks ps
  | _ :: ps => toks ps

/-- `TextOutputOptions` (without `allow_partial_output`). -/
structure Opts where
  multiline : Bool
  comments : Bool
  base : Base
  grouping : Bool
  indent : List Char
  current : List Char
  deriving Repr

/-- `PlusOneIndent()`. -/
def Opts.plusOne (o : Opts) : Opts := { o with current := o.current ++ o.indent }

/-- What a scalar view holds. -/
inductive Scalar where
  /-- `UIntView` / `IntView` / `BcdView` with `ValueType = T` -/
  | int (T : IntTy) (v : Int)
  /-- `FlagView` -/
  | bool (b : Bool)
  /-- `EnumView`: `TryToGetNameFromEnum` result, underlying type, numeric value -/
  | enumV (name : Option (List Char)) (T : IntTy) (v : Int)
  /-- `FloatView`: the text `WriteFloatToTextStream` produced (snprintf is not modelled) -/
  | float (tok : List Char)
  deriving Repr

mutual
inductive TVal where
  | scalar (s : Scalar)
  /-- `ascii`: the element type is `UInt:8`/`Int:8` (shorthand ASCII comment applies) -/
  | arr (ascii : Bool) (elems : TVals)
  | struct (fields : TFields)
inductive TVals where
  | nil
  | cons (v : TVal) (vs : TVals)
  /-- an atomic element that is not `Ok()` (only written about with `allow_partial_output`) -/
  | skip (vs : TVals)
/-- `readOnly`: written by `write_read_only_field_to_text_stream` (a comment). -/
inductive TFields where
  | nil
  | cons (name : List Char) (readOnly : Bool) (v : TVal) (fs : TFields)
  /-- an atomic field (read-only or not) that exists but is not `Ok()` -/
  | skip (name : List Char) (fs : TFields)
end

/-- `options.numeric_base() == 10 ? 16 : 10` -/
def otherBase : Base → Base
  | .b10 => .b16
  | _ => .b10

/-- `"  # "` followed by a number: white space, then a comment whose body is `" " ++ n`. -/
def numberComment (T : IntTy) (v : Int) (base : Base) (g : Bool) : List Piece :=
  [.space [' ', ' '], .comment (' ' :: writeInt T v base g)]

/-- `WriteIntegerViewToTextStream` / `WriteBooleanViewToTextStream` /
`WriteEnumViewToTextStream` / `WriteFloatToTextStream`. -/
def writeScalar (o : Opts) : Scalar → List Piece
  | .int T v =>
    .word (writeInt T v o.base o.grouping) ::
      (if o.comments then numberComment T v (otherBase o.base) o.grouping else [])
  | .bool b => [.word (if b then "true".toList else "false".toList)]
  | .enumV (some n) T v =>
    .word n :: (if o.comments then numberComment T v o.base o.grouping else [])
  | .enumV none T v => [.word (writeInt T v o.base o.grouping)]
  | .float t => [.word t]

/-- `[` index `]: ` with the index written as a `size_t`. -/
def indexMarker (o : Opts) (i : Nat) : List Piece :=
  [.punct '[', .word (writeInt .u64 i o.base o.grouping), .punct ']', .punct ':', .space [' ']]

/-- `c_is_printable ? c : '.'` for an element of an 8-bit integer array. -/
def asciiChar : TVal → Char
  | .scalar (.int _ v) => if 32 ≤ v ∧ v ≤ 126 then Char.ofNat v.toNat else '.'
  | _ => '.'

/-- (8-bit integer elements are never unreadable by content and `ElementCount()` counts complete
elements only, so a `skip` does not occur in an `ascii` array; it contributes nothing here.) -/
def asciiChars : TVals → List Char
  | .nil => []
  | .cons v vs => asciiChar v :: asciiChars vs
  | .skip vs => asciiChars vs

/-- `WriteShorthandAsciiArrayCommentToTextStream`: blocks of 64 characters, each on its own
comment line `\n<indent># …`.  Fuel = number of characters left. -/
def asciiLines (indent : List Char) : Nat → List Char → List Piece
  | 0, _ => []
  | fuel + 1, cs =>
    if cs = [] then []
    else .space ('\n' :: indent) :: .comment (' ' :: cs.take 64) :: asciiLines indent fuel (cs.drop 64)

def TVals.isNil : TVals → Bool
  | .nil => true
  | _ => false

def unreadable : List Char := "UNREADABLE".toList

mutual
/-- `view.WriteToTextStream(stream, o)`. -/
def writeVal (o : Opts) : TVal → List Piece
  | .scalar s => writeScalar o s
  | .arr ascii vs =>
    if o.multiline then
      .punct '{' ::
        ((if ascii && o.comments then
            asciiLines o.plusOne.current (asciiChars vs).length (asciiChars vs) else []) ++
          (writeElemsML o 0 vs ++ [.space ('\n' :: o.current), .punct '}']))
    else
      .punct '{' :: (writeElemsSL o 0 false vs ++ [.space [' '], .punct '}'])
  | .struct fs =>
    (if o.multiline then [.punct '{', .space ['\n']] else [.punct '{']) ++
      (writeFields o false fs ++
        (if o.multiline then [.space o.current, .punct '}'] else [.space [' '], .punct '}']))

/-- multi-line loop of `WriteArrayToTextStream` from index `i`. -/
def writeElemsML (o : Opts) (i : Nat) : TVals → List Piece
  | .nil => []
  | .cons v vs =>
    .space ('\n' :: o.plusOne.current) :: (indexMarker o i ++ (writeVal o.plusOne v ++ writeElemsML o (i + 1) vs))
  | .skip vs =>
    -- `"\n" indent "# [" i "]: UNREADABLE"` (comments only)
    (if o.comments then
        [.space ('\n' :: o.plusOne.current),
          .comment (' ' :: '[' :: (writeInt .u64 i o.base o.grouping ++ (']' :: ':' :: ' ' :: unreadable)))]
      else []) ++ writeElemsML o (i + 1) vs

/-- single-line loop of `WriteArrayToTextStream` from index `i`
(`i < ElementCount() - 1` ⇔ more elements follow); `skipped` = `skipped_unreadable`. -/
def writeElemsSL (o : Opts) (i : Nat) (skipped : Bool) : TVals → List Piece
  | .nil => []
  | .cons v vs =>
    .space [' '] :: ((if i % 8 = 0 ∨ skipped = true then indexMarker o i else []) ++
      (writeVal o.plusOne v ++ ((if vs.isNil then [] else [.punct ',']) ++ writeElemsSL o (i + 1) false vs)))
  | .skip vs =>
    -- `" # "`, `"[" i "]: "` on every eighth index, `"UNREADABLE\n"` (comments only)
    (if o.comments then
        [.space [' '],
          .comment (' ' :: ((if i % 8 = 0 then
            '[' :: (writeInt .u64 i o.base o.grouping ++ [']', ':', ' ']) else []) ++ unreadable)),
          .space ['\n']]
      else []) ++ writeElemsSL o (i + 1) true vs

/-- the `${write_fields}` clauses; `wrote` = `emboss_reserved_local_wrote_field`. -/
def writeFields (o : Opts) (wrote : Bool) : TFields → List Piece
  | .nil => []
  | .cons name false v fs =>
    -- write_field_to_text_stream
    (if o.multiline then [.space o.plusOne.current]
      else (if wrote then [.punct ',', .space [' ']] else [.space [' ']])) ++
      (.word name :: .punct ':' :: .space [' '] :: (writeVal o.plusOne v ++
        ((if o.multiline then [.space ['\n']] else []) ++ writeFields o true fs)))
  | .cons name true v fs =>
    -- write_read_only_field_to_text_stream: only with comments; `# name: value\n`
    (if o.comments then
        [.space o.plusOne.current,
          .comment (' ' :: (name ++ (':' :: ' ' :: render (writeVal o.plusOne v)))), .space ['\n']]
      else []) ++ writeFields o wrote fs
  | .skip name fs =>
    -- `# name: UNREADABLE\n` (comments only; both templates), `wrote` unchanged
    (if o.comments then
        (if o.multiline then [.space o.plusOne.current] else []) ++
          [.comment (' ' :: (name ++ (':' :: ' ' :: unreadable))), .space ['\n']]
      else []) ++ writeFields o wrote fs
end

/-- `::emboss::WriteToString(view, options)`. -/
def writeToString (o : Opts) (v : TVal) : List Char := render (writeVal o v)

end Emboss.Text
