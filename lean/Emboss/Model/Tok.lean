/-
Model of compiler/front_end/tokenizer.py (`_tokenize_line`, `tokenize`) — property C10.
Import-free apart from the regex model.

Positions are 1-based (line, column) pairs as in `parser_types.SourceLocation`.
-/
import Emboss.Model.Regex
namespace Emboss.Tok
open Emboss.Regex

/-- One entry of the pattern list.  `sym = none` ⇒ matched text is skipped (Python:
`symbol` is `None`/falsy). -/
structure Pat where
  re : Regex
  sym : Option String
  deriving DecidableEq, Repr

/-- `LITERAL_TOKEN_PATTERNS` and `REGEX_TOKEN_PATTERNS`. -/
structure Table where
  literals : List String
  regexes : List Pat
  deriving DecidableEq, Repr

/-- Literals first (symbol is the literal in double quotes), then the regexes: the two
`for` loops of `_tokenize_line` share `best_candidate`, so they are one loop over the
concatenation. -/
def Table.pats (t : Table) : List Pat :=
  t.literals.map (fun l => ⟨litRegex l.toList, some ("\"" ++ l ++ "\"")⟩) ++ t.regexes

structure Token where
  sym : String
  text : List Char
  sl : Nat
  sc : Nat
  el : Nat
  ec : Nat
  deriving DecidableEq, Repr

/-- The loop over all patterns: strictly longer wins, so ties stay with the earlier
pattern.  `none` = some pattern ran out of fuel. -/
def bestMatch : List Pat → List Char → Nat → Option String → Option (Nat × Option String)
  | [], _, n, sy => some (n, sy)
  | p :: ps, s, n, sy =>
    match matchLen p.re s with
    | .fuel => none
    | .fail => bestMatch ps s n sy
    | .ok m => if m > n then bestMatch ps s m p.sym else bestMatch ps s n sy

inductive LineRes where
  | fuel
  /-- "Unrecognized token" at 0-based offset `off` -/
  | err (off : Nat)
  | ok (toks : List Token)
  deriving DecidableEq, Repr

/-- `_tokenize_line`: `s` is `line[offset:]`.  Fuel = remaining length (every iteration
consumes at least one character). -/
def tokLine (pats : List Pat) (ln : Nat) : Nat → List Char → Nat → LineRes
  | _, [], _ => .ok []
  | 0, _ :: _, _ => .fuel
  | f + 1, c :: cs, off =>
    match bestMatch pats (c :: cs) 0 none with
    | none => .fuel
    | some (0, _) => .err off
    | some (n + 1, sy) =>
      match tokLine pats ln f ((c :: cs).drop (n + 1)) (off + (n + 1)) with
      | .ok ts =>
        .ok (match sy with
          | some name => ⟨name, (c :: cs).take (n + 1), ln, off + 1, ln, off + (n + 1) + 1⟩ :: ts
          | none => ts)
      | e => e

/-- `str.splitlines` boundaries (`Py_UNICODE_ISLINEBREAK`); `\r\n` counts once. -/
def isLineBreakNat (n : Nat) : Bool :=
  (10 ≤ n && n ≤ 13) || (28 ≤ n && n ≤ 30) || n == 0x85 || n == 0x2028 || n == 0x2029

def splitLinesAux (cur : List Char) : List Char → List (List Char)
  | [] => if cur.isEmpty then [] else [cur.reverse]
  | c :: rest =>
    if c.toNat == 13 then
      match rest with
      | d :: rest2 => if d.toNat == 10 then cur.reverse :: splitLinesAux [] rest2
                      else cur.reverse :: splitLinesAux [] (d :: rest2)
      | [] => [cur.reverse]
    else if isLineBreakNat c.toNat then cur.reverse :: splitLinesAux [] rest
    else splitLinesAux (c :: cur) rest

/-- `text.splitlines()` -/
def splitLines (text : List Char) : List (List Char) := splitLinesAux [] text

def isSpaceChar (c : Char) : Bool := isSpaceNat c.toNat

/-- `line[0 : len(line) - len(line.lstrip())]` -/
def leadingWs (line : List Char) : List Char := line.takeWhile isSpaceChar

def nlSym : String := "\"\\n\""

def newlineTok (ln len : Nat) : Token := ⟨nlSym, ['\n'], ln, len + 1, ln, len + 1⟩
def dedentTok (ln col : Nat) : Token := ⟨"Dedent", [], ln, col, ln, col⟩

/-- The indentation stack; Python's `indent_stack[-1]` is `top`, the rest (towards the
bottom `""`) is `below`. -/
structure IStack where
  top : List Char
  below : List (List Char)
  deriving DecidableEq, Repr

def IStack.depth (s : IStack) : Nat := s.below.length

/-- The `for i in range(len(indent_stack) - 1, -1, -1)` search, after the top (which is
known to differ) has been deleted: `k` levels closed so far. -/
def dedentTo (lw : List Char) : List (List Char) → Nat → Option (Nat × IStack)
  | [], _ => none
  | t :: below, k => if lw = t then some (k, ⟨t, below⟩) else dedentTo lw below (k + 1)

inductive StepRes where
  | fuel
  | err (msg : String) (sl sc el ec : Nat)
  | ok (emitted : List Token) (st : IStack)
  deriving DecidableEq, Repr

/-- One iteration of the `for line in text.splitlines()` loop. -/
def lineStep (pats : List Pat) (ln : Nat) (line : List Char) (st : IStack) : StepRes :=
  match tokLine pats ln line.length line 0 with
  | .fuel => .fuel
  | .err off => .err "Unrecognized token" ln (off + 1) ln (off + 2)
  | .ok lts =>
    let nl := newlineTok ln line.length
    if lts.all (fun t => t.sym == "Comment") then .ok (lts ++ [nl]) st
    else
      let lw := leadingWs line
      if lw = st.top then .ok (lts ++ [nl]) st
      else if st.top.isPrefixOf lw then
        .ok (⟨"Indent", lw.drop st.top.length, ln, st.top.length + 1, ln, lw.length + 1⟩
              :: (lts ++ [nl])) ⟨lw, st.top :: st.below⟩
      else
        match dedentTo lw st.below 1 with
        | none => .err "Bad indentation" ln 1 ln (lw.length + 1)
        | some (k, st') => .ok (List.replicate k (dedentTok ln (lw.length + 1)) ++ (lts ++ [nl])) st'

inductive TokRes where
  | fuel
  | err (msg : String) (sl sc el ec : Nat)
  | ok (toks : List Token)
  deriving DecidableEq, Repr

def TokRes.prepend (xs : List Token) : TokRes → TokRes
  | .ok ts => .ok (xs ++ ts)
  | e => e

/-- The loop over the lines (`ln` = number of the first remaining line) and the
trailing Dedents at `(line_number + 1, 1)`. -/
def tokLines (pats : List Pat) : List (List Char) → Nat → IStack → TokRes
  | [], ln, st => .ok (List.replicate st.depth (dedentTok ln 1))
  | line :: rest, ln, st =>
    match lineStep pats ln line st with
    | .fuel => .fuel
    | .err m a b c d => .err m a b c d
    | .ok em st' => (tokLines pats rest (ln + 1) st').prepend em

/-- `tokenizer.tokenize(text, file_name)` -/
def tokenize (pats : List Pat) (text : List Char) : TokRes :=
  tokLines pats (splitLines text) 1 ⟨[], []⟩

end Emboss.Tok
