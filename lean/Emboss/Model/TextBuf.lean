/-
Access-trace model of the scratch buffer of `WriteIntegerToTextStream`
(runtime/cpp/emboss_text_util.h), property C04, text layer.

`Emboss.Text.writeInt` (Model/Text.lean, tied to the real function by C06's differential
correspondence on every run) *prepends characters to a list*.  The C++ fills a fixed-size array
from the right through a running index:

    const int buffer_size = (sizeof value) * CHAR_BIT * 9 / 8 + 3;     -- Generated.TextBuf.bufferSize
    char buffer[buffer_size];
    buffer[buffer_size - 1] = '\0';                                    -- nulBack
    int next_char = buffer_size - 2;                                   -- firstBack
    …  EMBOSS_DCHECK_GE(next_char, 0); buffer[next_char] = c; --next_char;   (every store)
    stream->Write(buffer + 1 + next_char);

This file mirrors that index arithmetic, statement by statement, next to the control flow of
`writeLoop`/`writeBody`/`writeInt`: the state is the running index `next_char` (an `Int`: the
model keeps going below 0, where the real code trips the DCHECK or writes out of bounds) and
the trace of array indices accessed so far.  The characters themselves are irrelevant here.
Lemmas/TextBuf.lean proves that the trace is determined by `(writeInt …).length`.
-/
import Emboss.Model.Text
import Emboss.Generated.TextBuf

namespace Emboss.Text
open Emboss.Generated.TextBuf

/-- `next_char` and the indices of `buffer` accessed so far (most recent first). -/
structure BufSt where
  next : Int
  trace : List Int
  deriving Repr, DecidableEq

/-- `buffer_char(c)`: `EMBOSS_DCHECK_GE(next_char, 0); buffer[next_char] = c; --next_char;`
The index is recorded whatever its sign. -/
def BufSt.put (s : BufSt) : BufSt := { next := s.next - 1, trace := s.next :: s.trace }

/-- `n` consecutive stores. -/
def BufSt.puts : Nat → BufSt → BufSt
  | 0, s => s
  | n + 1, s => (BufSt.puts n s).put

/-- `buffer[size - 1] = '\0'; int next_char = size - 2;` (offsets from the header text). -/
def bufInit (size : Nat) : BufSt :=
  { next := (size : Int) - (firstBack : Int), trace := [(size : Int) - (nulBack : Int)] }

/-- The `while (value > 0)` loop: same recursion as `writeLoop`, one `put` per character. -/
def loopTrace (base : Nat) (grouping : Bool) (v count : Nat) (s : BufSt) : BufSt :=
  if _h : v = 0 ∨ base < 2 then s
  else
    -- `if (digit_count && digit_count % grouping == 0 && digit_grouping) buffer_char('_');`
    let s1 := if count ≠ 0 ∧ count % groupSize base = 0 ∧ grouping = true then s.put else s
    -- `buffer_char(digits[value % base]); value /= base; ++digit_count;`
    loopTrace base grouping (v / base) (count + 1) s1.put
termination_by v
decreasing_by exact Nat.div_lt_self (by omega) (by omega)

/-- Everything up to and including the loop (mirrors `writeBody`). -/
def bodyTrace (T : IntTy) (x : Int) (b : Nat) (grouping : Bool) (s : BufSt) : BufSt :=
  -- `if (value == 0) { DCHECK; buffer[next_char] = digits[0]; --next_char; }`
  let s0 := if x = 0 then s.put else s
  if x < 0 then
    if x = T.minVal then
      let m : Nat := (-(x + 1)).toNat
      let digit := m % b + 1
      let value := m / b
      let value' := if digit = b then value + 1 else value
      -- `buffer_char(digits[digit]); ++digit_count;`
      loopTrace b grouping value' 1 s0.put
    else
      loopTrace b grouping (-x).toNat 0 s0
  else
    loopTrace b grouping x.toNat 0 s0

/-- `if (base == 16) { buffer_char('x'); buffer_char('0'); } else if (base == 2) { 'b'; '0' }` -/
def prefixTrace (base : Base) (s : BufSt) : BufSt :=
  match base with
  | .b16 => s.put.put
  | .b2 => s.put.put
  | .b10 => s

/-- `if (sign < 0) buffer_char('-');` -/
def signTrace (x : Int) (s : BufSt) : BufSt := if x < 0 then s.put else s

/-- State when `stream->Write` is called, for an array of `size` chars. -/
def writeIntState (size : Nat) (T : IntTy) (x : Int) (base : Base) (grouping : Bool) : BufSt :=
  signTrace x (prefixTrace base (bodyTrace T x base.toNat grouping (bufInit size)))

/-- All indices of `buffer` that `WriteIntegerToTextStream<T>(x, stream, base, grouping)` touches,
in program order, were the array `size` chars long: the NUL store, every character store, and
finally the index `1 + next_char` at which `stream->Write` starts reading (it reads on up to the
NUL, i.e. only indices already in the trace). -/
def writeIntTrace (size : Nat) (T : IntTy) (x : Int) (base : Base) (grouping : Bool) : List Int :=
  let s := writeIntState size T x base grouping
  ((1 + s.next) :: s.trace).reverse

end Emboss.Text
