/-
Model of the text *reader* (property C06): `ReadIntegerFromTextStream`,
`ReadBooleanFromTextStream`, `ReadEnumViewFromTextStream`, `ReadArrayFromTextStream`
(emboss_text_util.h) and the generated `UpdateFromTextStream` of a structure
(`struct_text_stream` + `decode_field`), over a *static* shape: every field exists, array
lengths are fixed (existence conditions and dynamic sizes are the business of
Emboss/Model/TextStruct.lean).  The result is the sequence of `TryToWrite` calls.

`ReadFloatFromTextStream` is not modelled (sscanf): a float leaf accepts any non-empty
token and records it.
-/
import Emboss.Model.Text
namespace Emboss.Text

inductive RScalar where
  /-- integer view: text codec type `T`, `CouldWriteValue` ⇔ `lo ≤ v ≤ hi` -/
  | int (T : IntTy) (lo hi : Int)
  | bool
  /-- enum view: known names, `ValueType = T`, `CouldWriteValue` ⇔ `lo ≤ v ≤ hi` -/
  | enumR (names : List (List Char × Int)) (T : IntTy) (lo hi : Int)
  | float
  deriving Repr

mutual
inductive RShape where
  | scalar (s : RScalar)
  | arr (count : Nat) (elem : RShape)
  | struct (fields : RFields)
inductive RFields where
  | nil
  | cons (name : List Char) (shape : RShape) (rest : RFields)
end

inductive WVal where
  | int (v : Int)
  | bool (b : Bool)
  | float (tok : List Char)
  deriving Repr, DecidableEq

/-- One `TryToWrite`: path (as the harness prints it: `a.b[2]`) and value. -/
abbrev Write := List Char × WVal

inductive RRes where
  | ok (writes : List Write) (rest : List Char)
  | fail
  | outOfFuel
  deriving Repr, DecidableEq

/-- `static_cast<ValueType>(value)` for an integer outside the type: wraps modulo 2^bits. -/
def wrapTo (T : IntTy) (v : Int) : Int :=
  let m : Int := 2 ^ T.bits
  let r := v % m
  if T.signed && r ≥ m / 2 then r - m else r

def lookupName (names : List (List Char × Int)) (t : List Char) : Option Int :=
  match names.find? (fun p => p.1 == t) with
  | some p => some p.2
  | none => none

def isDigitChar (c : Char) : Bool := 48 ≤ c.toNat && c.toNat ≤ 57

def readScalar (s : RScalar) (path : List Char) (text : List Char) : RRes :=
  let (tok, rest) := readToken text
  match s with
  | .int T lo hi =>
    if tok = [] then .fail
    else match decodeInt T tok with
      | none => .fail
      | some v => if lo ≤ v ∧ v ≤ hi then .ok [(path, .int v)] rest else .fail
  | .bool =>
    if tok = "true".toList then .ok [(path, .bool true)] rest
    else if tok = "false".toList then .ok [(path, .bool false)] rest
    else .fail
  | .enumR names T lo hi =>
    match tok with
    | [] => .fail
    | c :: _ =>
      let value : Option Int :=
        if isDigitChar c then (decodeInt .u64 tok).map (wrapTo T)
        else if c = '-' then (decodeInt .i64 tok).map (wrapTo T)
        else lookupName names tok
      match value with
      | none => .fail
      | some v => if lo ≤ v ∧ v ≤ hi then .ok [(path, .int v)] rest else .fail
  | .float =>
    if tok = [] then .fail else .ok [(path, .float tok)] rest

def natToChars (n : Nat) : List Char := (toString n).toList

def findField : RFields → List Char → Option RShape
  | .nil, _ => none
  | .cons n s rest, t => if n = t then some s else findField rest t

/-- The optional `[index]:` of `ReadArrayFromTextStream`, after the `[` has been read:
index token (a `size_t`), `]`, `:`.  `none` = `return false`. -/
def readMarker (rest : List Char) : Option (Nat × List Char) :=
  let (it, r1) := readToken rest
  match decodeInt .u64 it with
  | none => none
  | some i =>
    let (cb, r2) := readToken r1
    if cb ≠ [']'] then none
    else
      let (col, r3) := readToken r2
      if col ≠ [':'] then none else some (i.toNat, r3)

/-- After an element of `ReadArrayFromTextStream`: "If there is a trailing comma, discard it.";
`if (c != '}') return false;`; a `}` is put back (`Unread`).  `none` = `return false`. -/
def afterElem (text : List Char) : Option (List Char) :=
  match discardWs false text with
  | [] => none                                      -- `if (!stream->Read(&c)) return false;`
  | c2 :: r'' =>
    if c2 = ',' then some r''
    else if c2 ≠ '}' then none
    else some (c2 :: r'')

/-- The field name of the generated `UpdateFromTextStream` loop: a token, with one optional `,`
before it skipped (`if (name == ",") ReadToken(stream, &name)`). -/
def readFieldName (text : List Char) : List Char × List Char :=
  let (name0, r0) := readToken text
  if name0 = [','] then readToken r0 else (name0, r0)

mutual
/-- `view.UpdateFromTextStream(stream)`; every recursive call spends one unit of fuel. -/
def readVal : Nat → RShape → List Char → List Char → RRes
  | 0, _, _, _ => .outOfFuel
  | _ + 1, .scalar s, path, text => readScalar s path text
  | fuel + 1, .arr count elem, path, text =>
    -- `if (!ReadToken(stream, &brace)) return false; if (brace != "{") return false;`
    match readToken text with
    | (['{'], rest) => readElems fuel count elem path 0 rest
    | _ => .fail
  | fuel + 1, .struct fields, path, text =>
    match readToken text with
    | (['{'], rest) => readFields fuel fields path rest
    | _ => .fail

/-- the `for (;;)` loop of `ReadArrayFromTextStream`; `index` persists across elements. -/
def readElems : Nat → Nat → RShape → List Char → Nat → List Char → RRes
  | 0, _, _, _, _, _ => .outOfFuel
  | fuel + 1, count, elem, path, index, text =>
    match discardWs false text with
    | [] => .fail                                   -- `if (!stream->Read(&c)) return false;`
    | c :: rest =>
      if c = '}' then .ok [] rest
      else
        -- optional `[index]:`; otherwise the character is put back and the running index is used
        match (if c = '[' then readMarker rest else some (index, c :: rest)) with
        | none => .fail
        | some (idx, r) =>
          if idx ≥ count then .fail
          else match readVal fuel elem (path ++ ('[' :: natToChars idx ++ [']'])) r with
            | .ok w1 r' =>
              match afterElem r' with
              | none => .fail
              | some r3 =>
                match readElems fuel count elem path (idx + 1) r3 with
                | .ok w2 r4 => .ok (w1 ++ w2) r4
                | e => e
            | e => e

/-- the `for (;;)` loop of the generated `UpdateFromTextStream`. -/
def readFields : Nat → RFields → List Char → List Char → RRes
  | 0, _, _, _ => .outOfFuel
  | fuel + 1, fields, path, text =>
    let (name, r1) := readFieldName text
    if name = ['}'] then .ok [] r1
    else
      let (colon, r2) := readToken r1
      if colon ≠ [':'] then .fail
      else match findField fields name with
        | none => .fail
        | some shape =>
          match readVal fuel shape (if path = [] then name else path ++ ('.' :: name)) r2 with
          | .ok w1 r3 =>
            match readFields fuel fields path r3 with
            | .ok w2 r4 => .ok (w1 ++ w2) r4
            | e => e
          | e => e
end

/-- `::emboss::UpdateFromText(view, text)`: fuel generous enough for any text
(every loop iteration consumes a character; nesting is bounded by the text length too). -/
def updateFromText (shape : RShape) (text : List Char) : RRes :=
  readVal (2 * text.length + 8) shape [] text

end Emboss.Text
