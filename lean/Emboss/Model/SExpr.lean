/-
Expression AST for `[static_requirements: …]` attribute values of `external` types
(property C14), and the three-valued constant evaluator that
`compiler/util/ir_util.py:constant_value(expression, bindings)` applies to them in
`constraints.py:_check_physical_type_requirements`.

Import-free (core Lean only).
-/
namespace Emboss.Constraints

/-- The fragment of Emboss expressions that occurs in `static_requirements`:
comparison / and / or / arithmetic / choice over the two builtins
`$static_size_in_bits` and `$is_statically_sized`.  Anything else the translator meets
(field references, other builtins, `$max`, …) becomes `unknown`, which evaluates to
"not a constant" exactly as `constant_value` does for those nodes. -/
inductive SExpr where
  | size                       -- `$static_size_in_bits`
  | isStatic                   -- `$is_statically_sized`
  | num (n : Int)
  | bool (b : Bool)
  | and (a b : SExpr)
  | or (a b : SExpr)
  | eq (a b : SExpr)
  | ne (a b : SExpr)
  | lt (a b : SExpr)
  | le (a b : SExpr)
  | gt (a b : SExpr)
  | ge (a b : SExpr)
  | add (a b : SExpr)
  | sub (a b : SExpr)
  | mul (a b : SExpr)
  | choice (c t e : SExpr)
  | unknown
  deriving DecidableEq, Repr

/-- Python values that `constant_value` can return (besides `None`). -/
inductive Val where
  | int (i : Int)
  | bool (b : Bool)
  deriving DecidableEq, Repr

/-- Python: `bool` is a subclass of `int`. -/
def Val.toInt : Val → Int
  | .int i => i
  | .bool true => 1
  | .bool false => 0

/-- Python truthiness. -/
def Val.truthy : Val → Bool
  | .int i => i != 0
  | .bool b => b

/-- `AND` row of `_constant_value_of_function`: any `value is False` ⇒ `False`; else any
`None` ⇒ `None`; else `True`. -/
def and3 (a b : Option Val) : Option Val :=
  if a = some (.bool false) ∨ b = some (.bool false) then some (.bool false)
  else if a = none ∨ b = none then none
  else some (.bool true)

/-- `OR` row: any `value is True` ⇒ `True`; else any `None` ⇒ `None`; else `False`. -/
def or3 (a b : Option Val) : Option Val :=
  if a = some (.bool true) ∨ b = some (.bool true) then some (.bool true)
  else if a = none ∨ b = none then none
  else some (.bool false)

/-- The strict operators: any unknown argument ⇒ unknown. -/
def strict2 (f : Int → Int → Val) (a b : Option Val) : Option Val :=
  match a, b with
  | some x, some y => some (f x.toInt y.toInt)
  | _, _ => none

/-- `constant_value(expr, bindings)` with `bindings = {"$is_statically_sized": size is not
None, "$static_size_in_bits": size}` (the second key only present when `size` is). -/
def evalS (size : Option Int) : SExpr → Option Val
  | .size => size.map Val.int
  | .isStatic => some (.bool size.isSome)
  | .num n => some (.int n)
  | .bool b => some (.bool b)
  | .and a b => and3 (evalS size a) (evalS size b)
  | .or a b => or3 (evalS size a) (evalS size b)
  | .eq a b => strict2 (fun x y => .bool (decide (x = y))) (evalS size a) (evalS size b)
  | .ne a b => strict2 (fun x y => .bool (decide (x ≠ y))) (evalS size a) (evalS size b)
  | .lt a b => strict2 (fun x y => .bool (decide (x < y))) (evalS size a) (evalS size b)
  | .le a b => strict2 (fun x y => .bool (decide (x ≤ y))) (evalS size a) (evalS size b)
  | .gt a b => strict2 (fun x y => .bool (decide (x > y))) (evalS size a) (evalS size b)
  | .ge a b => strict2 (fun x y => .bool (decide (x ≥ y))) (evalS size a) (evalS size b)
  | .add a b => strict2 (fun x y => .int (x + y)) (evalS size a) (evalS size b)
  | .sub a b => strict2 (fun x y => .int (x - y)) (evalS size a) (evalS size b)
  | .mul a b => strict2 (fun x y => .int (x * y)) (evalS size a) (evalS size b)
  | .choice c t e =>
    match evalS size c with
    | none => none
    | some v => if v.truthy then evalS size t else evalS size e
  | .unknown => none

/-- `requires_attr and not constant_value(requires_attr.expression, bindings)` is the
*failure* test; so the requirement is met iff the value is truthy (`None`, `False`, `0`
all fail). -/
def reqMet (e : SExpr) (size : Option Int) : Bool :=
  match evalS size e with
  | some v => v.truthy
  | none => false

/-- The validators of `attribute_checker._ATTRIBUTE_TYPES` (regenerated into
`Emboss/Generated/AttrTable.lean`). -/
inductive AttrTy where
  | intConst                    -- `attribute_util.INTEGER_CONSTANT`
  | boolConst                   -- `attribute_util.BOOLEAN_CONSTANT`
  | bool                        -- `attribute_util.BOOLEAN`
  | str                         -- `attribute_util.STRING`
  | choice (vs : List String)   -- `attribute_util.string_from_list(vs)`
  | backEnds                    -- `attribute_checker._valid_back_ends`
  | unknownChecker              -- a validator the translator does not recognise
  deriving DecidableEq, Repr

end Emboss.Constraints
