/-
Pointer-level model of `ContiguousBuffer` and of what a `BitBlock` reads (C04): a window into
the root allocation, `GetOffsetStorage`, the byte orderers' `SizeInBytes()`, and int32 addition
with overflow made explicit.  Mirrors runtime/cpp/emboss_memory_util.h and emboss_arithmetic.h.
-/
import Emboss.Model.View
namespace Emboss.View

/-- A `ContiguousBuffer` at pointer level: offset of `bytes_` in the root allocation and `size_`. -/
structure Window where
  off : Nat
  len : Nat
  deriving DecidableEq, Repr

/-- every byte of the window is inside an allocation of `total` bytes -/
def Window.valid (w : Window) (total : Nat) : Prop := w.off + w.len ≤ total

/-- `GetOffsetStorage(offset, size)`:
`{bytes_ + offset, size_ < offset ? 0 : min(size, size_ - offset)}` -/
def Window.sub (w : Window) (offset size : Nat) : Window :=
  { off := w.off + offset, len := if w.len < offset then 0 else min size (w.len - offset) }

/-- the indices a full read/write of the window touches (`memcpy`/`memmove` of `size_` bytes,
`BitBlock::ReadUInt` of `kBits/8 = size_` bytes) -/
def Window.indices (w : Window) : List Nat := List.range' w.off w.len

/-- Invariant of every storage reachable from a view over an exact-size buffer: either empty
(then the *pointer* may lie beyond the allocation — formation of such a pointer is outside this
model) or entirely inside the allocation. -/
def Window.safe (w : Window) (total : Nat) : Prop := w.len = 0 ∨ w.valid total

/-- `Orderer::SizeInBytes()`: every orderer (little-endian, big-endian and, since the repair of
`NullByteOrderer::SizeInBytes()` — it used to answer `Ok() ? 1 : 0` — also the null orderer of
one-byte fields) answers the size of the buffer it wraps. -/
def ordererSize (_bo : ByteOrder) (w : Window) : Nat := w.len

/-- indices `BitBlock<…, 8·k>::ReadUInt()` touches once `BitBlock::Ok()`
(`buffer_.Ok() && buffer_.SizeInBytes() * 8 == kBufferSizeInBits`) holds: `k` bytes from `bytes_`. -/
def bitBlockReads (bo : ByteOrder) (k : Nat) (w : Window) : List Nat :=
  if ordererSize bo w = k then List.range' w.off k else []

/-- `SumOperation::Do<int32_t>`: `none` = signed overflow (undefined behaviour). -/
def addI32 (a b : Int) : Option Int :=
  if -2147483648 ≤ a + b ∧ a + b ≤ 2147483647 then some (a + b) else none

/-- Outcome of the generated `CouldWriteValue(v)` of a virtual field `let f = x + c` … as far as
arithmetic is concerned: `none` = signed overflow (UB) while computing the inverse transform
`v - c` (rendered as `Sum<int32_t,…>(v, k)` with `k = -c`), `some false` = rejected before any
arithmetic, `some true` = transform computed.  `lo`/`hi` = the inferred range of the virtual
field that the generated code compares the argument with *first*
(`if (v < lo || v > hi) return false;`, structure_single_virtual_field_write_methods). -/
def virtWriteI32 (lo hi k v : Int) : Option Bool :=
  if v < lo ∨ v > hi then some false else (addI32 v k).map fun _ => true

end Emboss.View
