/-
Level B: impl model of the table *generator* `lr1.Grammar(start, productions).parser()`.

* `Gen.tables G`   — `_compute_symbols` + `_compute_seed_firsts`: nonterminal bitmap,
                     productions by left-hand side, FIRST / nullable by iteration to the fixed
                     point (ε is the `nullable` bit), packaged as a `Cert` without item sets so
                     that the validator's `Cert.firstSeq` *is* `_first`.
* `Gen.closure`    — `_closure_of_item` (worklist; the two memo caches of the Python are an
                     optimisation and are modelled by their specification: the closure).
* `Gen.gotoSet`    — one entry of `_parallel_goto`: the union of the closures of the advanced
                     items.
* `Gen.bfs`        — `_items`: states numbered in discovery order, state by state, symbols in
                     sorted order (the harness interns symbols so that the order of the codes
                     is Python's string order); a state is a *set* of items, kept as a sorted
                     duplicate-free list.
* `Gen.actions`    — the ACTION loop of `parser()` with conflict detection, goto trimming.
* `gen G`          — everything; `none` = out of fuel (never on the inputs of the harness).

Tie: the driver op `GEN` prints the generated item sets, tables and the conflict flag in a
canonical form; the harness renders the real `lr1.Parser` the same way and compares the text
(state numbering included) for every grammar of the run.
-/
import Emboss.Model.Lr1Valid
namespace Emboss.Lr1
namespace Gen

def nsym (G : Grammar) : Nat :=
  G.all.foldl (fun m p => p.rhs.foldl (fun m x => max m (x + 1)) (max m (p.lhs + 1)))
    (max (G.eoi + 1) (G.startPrime + 1))

def unionL (l add : List Nat) : List Nat :=
  add.foldl (fun l c => if l.contains c then l else l ++ [c]) l

/-- symbol classification and lookup arrays, FIRST table still empty -/
def tables0 (G : Grammar) : Cert :=
  let n := nsym G
  { items := #[]
    rules := G.all.toArray
    prodsOf := G.all.zipIdx.foldl (fun a (p, i) => a.modify p.lhs (fun l => l ++ [i])) (Array.replicate n [])
    first := Array.replicate n []
    nullable := Array.replicate n false
    nt := G.all.foldl (fun a p => a.setIfInBounds p.lhs true) (Array.replicate n false) }

/-- one pass of the loop body of `_compute_seed_firsts` -/
def firstRound (G : Grammar) (C : Cert) : Cert :=
  G.all.foldl (fun C p =>
    let add := C.firstSeq p.rhs []
    let C := { C with first := C.first.modify p.lhs (fun l => unionL l add) }
    if p.rhs.all C.nullableOf then { C with nullable := C.nullable.setIfInBounds p.lhs true } else C) C

def tableSize (C : Cert) : Nat :=
  C.first.foldl (fun n l => n + l.length) 0 + C.nullable.foldl (fun n b => if b then n + 1 else n) 0

def firstFix (G : Grammar) : Nat → Cert → Option Cert
  | 0, _ => none
  | f + 1, C =>
    let C' := firstRound G C
    if tableSize C' = tableSize C then some C else firstFix G f C'

def tables (G : Grammar) : Option Cert :=
  let n := nsym G
  firstFix G (n * (n + 1) + 2) (tables0 G)

/-! ### closure -/

/-- the items one item brings in directly (`_single_level_closure_of_item_cache`) -/
def succsOf (C : Cert) (it : Item) : List Item :=
  match C.ruleAt it.pi with
  | none => []
  | some p =>
    match p.rhs[it.dot]? with
    | none => []
    | some x =>
      (C.prodsFor x).flatMap fun j =>
        (C.firstSeq (p.rhs.drop (it.dot + 1)) [it.la]).map fun c => (⟨j, 0, c⟩ : Item)

/-- add the items of a list that are not yet known to the result set and to the worklist -/
def addNew : List Item → List Item → List Item → List Item × List Item
  | acc, todo, [] => (acc, todo)
  | acc, todo, j :: js =>
    if acc.contains j then addNew acc todo js else addNew (j :: acc) (j :: todo) js

def closeLoop (C : Cert) : Nat → List Item → List Item → Option (List Item)
  | _, [], acc => some acc
  | 0, _ :: _, _ => none
  | f + 1, it :: todo, acc =>
    let r := addNew acc todo (succsOf C it)
    closeLoop C f r.2 r.1

def maxRhs (C : Cert) : Nat := C.rules.foldl (fun m p => max m p.rhs.length) 0

/-- number of distinct items there can be (+ slack): enough fuel for any worklist run -/
def itemBound (C : Cert) : Nat := C.rules.size * (maxRhs C + 1) * C.nt.size + 2

def closure (C : Cert) (seed : List Item) : Option (List Item) :=
  closeLoop C (itemBound C + seed.length) seed seed

/-! ### sets of items as sorted duplicate-free lists -/

def Item.lt (a b : Item) : Bool :=
  a.pi < b.pi || (a.pi == b.pi && (a.dot < b.dot || (a.dot == b.dot && a.la < b.la)))

def insertS (x : Item) : List Item → List Item
  | [] => [x]
  | y :: ys => if x = y then y :: ys else if Item.lt x y then x :: y :: ys else y :: insertS x ys

def norm (l : List Item) : List Item := l.foldr insertS []

def insertN (x : Nat) : List Nat → List Nat
  | [] => [x]
  | y :: ys => if x = y then y :: ys else if x < y then x :: y :: ys else y :: insertN x ys

def normN (l : List Nat) : List Nat := l.foldr insertN []

/-! ### goto and the state graph -/

def advance (it : Item) : Item := ⟨it.pi, it.dot + 1, it.la⟩

/-- `_parallel_goto(items)[x]` -/
def gotoSet (C : Cert) (I : List Item) (x : Nat) : Option (List Item) :=
  closure C ((I.filter (fun it => C.nextSyms it == [x])).map advance)

structure St where
  states : Array (List Item)
  /-- per processed state: (symbol, target) for every symbol after a dot, symbols ascending -/
  trans : Array (List (Nat × Nat))

def stateIndex (st : St) (J : List Item) : Option Nat := st.states.findIdx? (· == J)

/-- the inner `for symbol, goto in sorted(gotos.items())` loop for one state -/
def expand (C : Cert) (I : List Item) : List Nat → St → List (Nat × Nat) → Option (St × List (Nat × Nat))
  | [], st, row => some (st, row)
  | x :: xs, st, row =>
    match gotoSet C I x with
    | none => none
    | some J =>
      let J := norm J
      match stateIndex st J with
      | some k => expand C I xs st (row ++ [(x, k)])
      | none => expand C I xs { st with states := st.states.push J } (row ++ [(x, st.states.size)])

def bfs (C : Cert) : Nat → Nat → St → Option St
  | 0, _, _ => none
  | f + 1, i, st =>
    match st.states[i]? with
    | none => some st
    | some I =>
      match expand C I (normN (I.flatMap C.nextSyms)) st [] with
      | none => none
      | some (st', row) => bfs C f (i + 1) { st' with trans := st'.trans.push row }

/-! ### ACTION / GOTO tables -/

/-- the actions the items of state `i` ask for -/
def wanted (C : Cert) (eoi : Nat) (row : List (Nat × Nat)) (I : List Item) : List (Nat × Action) :=
  I.flatMap fun it =>
    match C.ruleAt it.pi with
    | none => []
    | some p =>
      match p.rhs[it.dot]? with
      | none =>
        if it.pi = C.seedIdx then (if it.dot = 1 ∧ it.la = eoi then [(eoi, .accept)] else [])
        else [(it.la, .reduce it.pi)]
      | some x =>
        if C.isNT x then []
        else match row.lookup x with
          | some t => [(x, .shift t)]
          | none => []

def dedupActs : List (Nat × Action) → List (Nat × Action)
  | [] => []
  | e :: es => if es.contains e then dedupActs es else e :: dedupActs es

def hasConflict (l : List (Nat × Action)) : Bool :=
  l.any fun e => l.any fun e' => e.1 == e'.1 && e.2 != e'.2

structure Out where
  aut : Automaton
  cert : Cert
  conflicts : Bool

end Gen

open Gen in
/-- `Grammar(start, productions).parser()` -/
def gen (G : Grammar) : Option Gen.Out :=
  match Gen.tables G with
  | none => none
  | some C =>
    match Gen.closure C [⟨C.seedIdx, 0, G.eoi⟩] with
    | none => none
    | some I0 =>
      let bound := Gen.itemBound C
      match Gen.bfs C (1000000 + bound) 0 ⟨#[Gen.norm I0], #[]⟩ with
      | none => none
      | some st =>
        let rows := (List.range st.states.size).map fun i =>
          Gen.dedupActs (Gen.wanted C G.eoi ((st.trans[i]?).getD []) ((st.states[i]?).getD []))
        let action : Array (Option Row) := (rows.map fun r => if r.isEmpty then none else some r).toArray
        let goto : Array (List (Nat × Nat)) :=
          st.trans.map fun row => row.filter fun e => C.isNT e.1
        some { aut := { prods := G.all, action, goto, defaultErrors := [], strict := false, eoi := G.eoi }
               cert := { C with items := st.states }
               conflicts := rows.any Gen.hasConflict }

end Emboss.Lr1
