/-
Level B: impl model of the table *generator* `lr1.Grammar(start, productions).parser()`.

* `Gen.tables G`   — `_compute_symbols` + `_compute_seed_firsts`: nonterminal bitmap,
                     productions by left-hand side, FIRST / nullable by iteration to the fixed
                     point (ε is the `nullable` bit), packaged as a `Cert` without item sets so
                     that the validator's `Cert.firstSeq` *is* `_first`.
* `Gen.closure`    — `_closure_of_item` (worklist; the two memo caches of the Python are an
                     optimisation and are modelled by their specification: the closure).
* `Gen.gotoSet`    — one entry of `_parallel_goto`: the union of the closures of the advanced
                     items.
* `Gen.bfs`        — `_items`: states numbered in discovery order, state by state, symbols in
                     sorted order (the harness interns symbols so that the order of the codes
                     is Python's string order); a state is a *set* of items, kept as a sorted
                     duplicate-free list.
* `Gen.actions`    — the ACTION loop of `parser()` with conflict detection, goto trimming.
* `Gen.allProductive` — `_unproductive_nonterminals` (empty or not): reported together with the conflicts.
* `gen G`          — everything; `none` = out of fuel (never on the inputs of the harness).

Tie: the driver op `GEN` prints the generated item sets, tables and the conflict flag in a
canonical form; the harness renders the real `lr1.Parser` the same way and compares the text
(state numbering included) for every grammar of the run.
-/
import Emboss.Model.Lr1Valid
namespace Emboss.Lr1
namespace Gen

/-- one more than the largest symbol code of the grammar (`$` and `S'` included) -/
def nsym (G : Grammar) : Nat :=
  (G.all.flatMap fun p => p.lhs :: p.rhs).foldl max (max G.eoi G.startPrime) + 1

def unionL (l add : List Nat) : List Nat :=
  add.foldl (fun l c => if l.contains c then l else l ++ [c]) l

/-- symbol classification and lookup arrays (`_compute_symbols`, `_set_productions_by_lhs`),
FIRST table still empty -/
def tables0 (G : Grammar) : Cert :=
  let n := nsym G
  { items := #[]
    rules := G.all.toArray
    prodsOf := ((List.range n).map fun x => (G.all.zipIdx.filter fun q => q.1.lhs == x).map (·.2)).toArray
    first := ((List.range n).map fun _ => ([] : List Nat)).toArray
    nullable := ((List.range n).map fun _ => false).toArray
    nt := ((List.range n).map fun x => G.all.any fun p => p.lhs == x).toArray }

/-- one pass of the `while True` loop of `_compute_seed_firsts`: `firsts_to_add` is computed for
every production from the table of the previous pass, then added (ε is the `nullable` bit) -/
def firstRound (C : Cert) : Cert :=
  { C with
    first := ((List.range C.nt.size).map fun x =>
      unionL ((C.first[x]?).getD [])
        ((C.rules.toList.filter fun p => p.lhs == x).flatMap fun p => C.firstSeq p.rhs [])).toArray
    nullable := ((List.range C.nt.size).map fun x =>
      (C.nullable[x]?).getD false ||
        C.rules.toList.any fun p => p.lhs == x && p.rhs.all C.nullableOf).toArray }

/-- `_compute_seed_firsts`: iterate until `firsts_to_add` is empty, i.e. until `_first(rhs)` is
contained in `firsts[lhs]` for every production — literally the validator's `VFirst` -/
def firstFix : Nat → Cert → Option Cert
  | 0, _ => none
  | f + 1, C => if VFirst C then some C else firstFix f (firstRound C)

/-- rounds that can add something: at most one per (nonterminal, terminal-or-ε) pair -/
def firstFuel (G : Grammar) : Nat := nsym G * (nsym G + 1) + 2

def tables (G : Grammar) : Option Cert :=
  firstFix (firstFuel G) (tables0 G)

/-! ### closure -/

/-- the items one item brings in directly (`_single_level_closure_of_item_cache`) -/
def succsOf (C : Cert) (it : Item) : List Item :=
  match C.ruleAt it.pi with
  | none => []
  | some p =>
    match p.rhs[it.dot]? with
    | none => []
    | some x =>
      (C.prodsFor x).flatMap fun j =>
        (C.firstSeq (p.rhs.drop (it.dot + 1)) [it.la]).map fun c => (⟨j, 0, c⟩ : Item)

/-- add the items of a list that are not yet known to the result set and to the worklist -/
def addNew : List Item → List Item → List Item → List Item × List Item
  | acc, todo, [] => (acc, todo)
  | acc, todo, j :: js =>
    if acc.contains j then addNew acc todo js else addNew (j :: acc) (j :: todo) js

def closeLoop (C : Cert) : Nat → List Item → List Item → Option (List Item)
  | _, [], acc => some acc
  | 0, _ :: _, _ => none
  | f + 1, it :: todo, acc =>
    let r := addNew acc todo (succsOf C it)
    closeLoop C f r.2 r.1

def maxRhs (C : Cert) : Nat := (C.rules.toList.map fun p => p.rhs.length).foldl max 0

/-- number of distinct items there can be (+ slack): enough fuel for any worklist run -/
def itemBound (C : Cert) : Nat := C.rules.size * (maxRhs C + 1) * C.nt.size

def closure (C : Cert) (seed : List Item) : Option (List Item) :=
  closeLoop C (itemBound C + seed.length) seed seed

/-! ### sets of items as sorted duplicate-free lists -/

def Item.lt (a b : Item) : Bool :=
  a.pi < b.pi || (a.pi == b.pi && (a.dot < b.dot || (a.dot == b.dot && a.la < b.la)))

def insertS (x : Item) : List Item → List Item
  | [] => [x]
  | y :: ys => if x = y then y :: ys else if Item.lt x y then x :: y :: ys else y :: insertS x ys

def norm (l : List Item) : List Item := l.foldr insertS []

def insertN (x : Nat) : List Nat → List Nat
  | [] => [x]
  | y :: ys => if x = y then y :: ys else if x < y then x :: y :: ys else y :: insertN x ys

def normN (l : List Nat) : List Nat := l.foldr insertN []

/-! ### goto and the state graph -/

def advance (it : Item) : Item := ⟨it.pi, it.dot + 1, it.la⟩

/-- `_parallel_goto(items)[x]` -/
def gotoSet (C : Cert) (I : List Item) (x : Nat) : Option (List Item) :=
  closure C ((I.filter (fun it => C.nextSyms it == [x])).map advance)

structure St where
  /-- the item sets as *sets* (sorted duplicate-free lists): what a state is identified by -/
  states : Array (List Item)
  /-- the same item sets in the order the closure found the items (kernel first): every closure
  item comes after an item that brought it in -/
  just : Array (List Item)
  /-- per processed state: (symbol, target) for every symbol after a dot, symbols ascending -/
  trans : Array (List (Nat × Nat))

def stateIndex (st : St) (J : List Item) : Option Nat := st.states.findIdx? (· == J)

/-- the inner `for symbol, goto in sorted(gotos.items())` loop for one state -/
def expand (C : Cert) (I : List Item) : List Nat → St → List (Nat × Nat) → Option (St × List (Nat × Nat))
  | [], st, row => some (st, row)
  | x :: xs, st, row =>
    match gotoSet C I x with
    | none => none
    | some J =>
      match stateIndex st (norm J) with
      | some k => expand C I xs st (row ++ [(x, k)])
      | none =>
        expand C I xs { st with states := st.states.push (norm J), just := st.just.push J.reverse }
          (row ++ [(x, st.states.size)])

def bfs (C : Cert) : Nat → Nat → St → Option St
  | 0, _, _ => none
  | f + 1, i, st =>
    match st.states[i]? with
    | none => some st
    | some I =>
      match expand C I (normN (I.flatMap C.nextSyms)) st [] with
      | none => none
      | some (st', row) => bfs C f (i + 1) { st' with trans := st'.trans.push row }

/-! ### ACTION / GOTO tables -/

/-- the actions the items of state `i` ask for -/
def wanted (C : Cert) (eoi : Nat) (row : List (Nat × Nat)) (I : List Item) : List (Nat × Action) :=
  I.flatMap fun it =>
    match C.ruleAt it.pi with
    | none => []
    | some p =>
      match p.rhs[it.dot]? with
      | none =>
        if it.pi = C.seedIdx then (if it.dot = 1 ∧ it.la = eoi then [(eoi, .accept)] else [])
        else [(it.la, .reduce it.pi)]
      | some x =>
        if C.isNT x then []
        else match row.lookup x with
          | some t => [(x, .shift t)]
          | none => []

def dedupActs : List (Nat × Action) → List (Nat × Action)
  | [] => []
  | e :: es => if es.contains e then dedupActs es else e :: dedupActs es

def hasConflict (l : List (Nat × Action)) : Bool :=
  l.any fun e => l.any fun e' => e.1 == e'.1 && e.2 != e'.2

/-! ### productive nonterminals (a decidable check of the hypothesis `Reduced G` of the
error-position theorem; the marking loop every grammar text book has) -/

/-- one pass over the client's productions: a left-hand side becomes productive when every symbol
of the right-hand side is a terminal or already productive -/
def prodRound (G : Grammar) (P : List Nat) : List Nat :=
  G.prods.foldl (fun P p =>
    if !P.contains p.lhs && p.rhs.all (fun x => !G.isNT x || P.contains x) then p.lhs :: P else P) P

def productiveFix (G : Grammar) : Nat → List Nat → List Nat
  | 0, P => P
  | f + 1, P =>
    let P' := prodRound G P
    if P'.length = P.length then P else productiveFix G f P'

def productiveSet (G : Grammar) : List Nat := productiveFix G (G.prods.length + 1) []

/-- every nonterminal of the client's grammar derives a terminal string -/
def allProductive (G : Grammar) : Bool := G.prods.all fun p => (productiveSet G).contains p.lhs

/-- the executable check of `Reduced G` -/
def reducedB (G : Grammar) : Bool :=
  allProductive G && (G.prods.any (fun p => p.lhs == G.start) || !G.isNT G.start)

structure Out where
  aut : Automaton
  /-- lookup arrays + FIRST table + the item sets in discovery (justification) order -/
  cert : Cert
  /-- the item sets as sorted lists (what the tie compares) -/
  states : Array (List Item)
  conflicts : Bool

def rowsOf (C : Cert) (eoi : Nat) (st : St) : List (List (Nat × Action)) :=
  (List.range st.states.size).map fun i =>
    dedupActs (wanted C eoi ((st.trans[i]?).getD []) ((st.states[i]?).getD []))

/-- enough for every run of `bfs`: one step per state, states are distinct sets of items -/
def bfsFuel (C : Cert) : Nat := 2 ^ (itemBound C) + 2

end Gen

/-- The reserved symbols `$` and `S'` are not used by the client's productions (the grammar part
of the validator's `VWf`; the harness interns them as fresh codes). -/
def WfG (G : Grammar) : Prop :=
  G.start ≠ G.startPrime ∧ G.eoi ≠ G.startPrime ∧ G.start ≠ G.eoi ∧
  (∀ p ∈ G.all, p.lhs ≠ G.eoi ∧ ∀ x ∈ p.rhs, x ≠ G.eoi) ∧
  (∀ p ∈ G.prods, p.lhs ≠ G.startPrime ∧ ∀ x ∈ p.rhs, x ≠ G.startPrime)

instance (G : Grammar) : Decidable (WfG G) := by unfold WfG; infer_instance

open Gen in
/-- `Grammar(start, productions).parser()` -/
def gen (G : Grammar) : Option Gen.Out :=
  match Gen.tables G with
  | none => none
  | some C =>
    match Gen.closure C [⟨C.seedIdx, 0, G.eoi⟩] with
    | none => none
    | some I0 =>
      match Gen.bfs C (Gen.bfsFuel C) 0 ⟨#[Gen.norm I0], #[I0.reverse], #[]⟩ with
      | none => none
      | some st =>
        let rows := Gen.rowsOf C G.eoi st
        let action : Array (Option Row) := (rows.map fun r => if r.isEmpty then none else some r).toArray
        let goto : Array (List (Nat × Nat)) :=
          st.trans.map fun row => row.filter fun e => C.isNT e.1
        some { aut := { prods := G.all, action, goto, defaultErrors := [], strict := false, eoi := G.eoi }
               cert := { C with items := st.just }
               states := st.states
               conflicts := rows.any Gen.hasConflict || !Gen.allProductive G }

end Emboss.Lr1
