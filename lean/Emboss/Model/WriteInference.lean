/-
Executable model of `compiler/front_end/write_inference.py`:
`_find_field_reference_path`, `_invert_expression`, `_add_write_method`, and of the generated
virtual-field write methods (template `structure_single_virtual_field_write_methods`).

Expressions: integer constants, field references, the `$logical_value` builtin, other
reference-free leaves, and functions of one, two or three arguments (every Emboss operator
and the two- and three-argument forms of the builtin functions; longer `$max(...)` lists are not
modelled — the harness reports them as unmodelled instead of guessing).

Second half: how the generated C++ evaluates the inverse (`function_body`) — the bounds
`expression_bounds` assigns to its nodes, the fixed-width types
`header_generator._render_builtin_operation` picks from them, `MaybeDo`'s casts — and the
range check of the virtual field's own value range that `CouldWriteValue` performs first
(`fix: make writes through an arithmetic virtual field reject values outside the field's
range before computing the inverse transform`).
Imports only `Emboss.Model.CppInt` (fixed-width C++ integer types; core only).
-/
import Emboss.Model.CppInt
namespace Emboss.WInf
open Emboss.CppInt

inductive Op
  | add | sub | mul
  | other (name : String)
  deriving DecidableEq, Repr

inductive Expr
  | const (v : Int)
  | ref (id : Nat)
  | logical
  | leaf (name : String)
  | un (name : String) (a : Expr)
  | bin (op : Op) (a b : Expr)
  | tern (name : String) (a b c : Expr)
  deriving DecidableEq, Repr

/-- One iteration of the loop in `_recursively_find_field_reference_path`:
`if arg_field_count == 1 and field_count == 0: path = [index] + arg_path;
field_count += arg_field_count`. -/
def step (acc : Nat × List Nat) (index : Nat) (r : Nat × List Nat) : Nat × List Nat :=
  (acc.1 + r.1, if r.1 = 1 ∧ acc.1 = 0 then index :: r.2 else acc.2)

/-- `if field_count == 1: return field_count, path else: return field_count, []`. -/
def finish (acc : Nat × List Nat) : Nat × List Nat :=
  if acc.1 = 1 then acc else (acc.1, [])

/-- `_recursively_find_field_reference_path`: (number of field references, path). -/
def find : Expr → Nat × List Nat
  | .ref _ => (1, [])
  | .un _ a => finish (step (0, []) 0 (find a))
  | .bin _ a b => finish (step (step (0, []) 0 (find a)) 1 (find b))
  | .tern _ a b c => finish (step (step (step (0, []) 0 (find a)) 1 (find b)) 2 (find c))
  | _ => (0, [])

/-- `_find_field_reference_path`. -/
def findPath (e : Expr) : Option (List Nat) :=
  if (find e).1 = 1 then some (find e).2 else none

/-- The loop of `_invert_expression` over the reference path: at each step one layer is
removed from `sub` and the inverse function is applied to `res`. -/
def invertAux : List Nat → Expr → Expr → Option (Expr × Expr)
  | [], sub, res => some (sub, res)
  | i :: rest, .bin .add a b, res =>
    -- result = SUBTRACTION(result, args[1 - index]); subexpression = args[index]
    if i = 0 then invertAux rest a (.bin .sub res b)
    else if i = 1 then invertAux rest b (.bin .sub res a)
    else none
  | i :: rest, .bin .sub a b, res =>
    if i = 0 then invertAux rest a (.bin .add res b)      -- ADDITION(result, args[1])
    else if i = 1 then invertAux rest b (.bin .sub a res)  -- SUBTRACTION(args[0], result)
    else none
  | _ :: _, _, _ => none

/-- `_invert_expression`: (the field reference reached, inverse over `$logical_value`). -/
def invert (e : Expr) : Option (Expr × Expr) :=
  match findPath e with
  | none => none
  | some path => invertAux path e .logical

/-- Integer evaluation (ℤ, no overflow): `env` gives the field values, `lv` the value of
`$logical_value`.  `none`: not evaluable in the model (opaque leaf / function). -/
def eval (env : Nat → Int) (lv : Int) : Expr → Option Int
  | .const v => some v
  | .ref i => some (env i)
  | .logical => some lv
  | .leaf _ => none
  | .un _ _ => none
  | .bin .add a b => do let x ← eval env lv a; let y ← eval env lv b; pure (x + y)
  | .bin .sub a b => do let x ← eval env lv a; let y ← eval env lv b; pure (x - y)
  | .bin .mul a b => do let x ← eval env lv a; let y ← eval env lv b; pure (x * y)
  | .bin (.other _) _ _ => none
  | .tern _ _ _ _ => none

def update (env : Nat → Int) (x : Nat) (a : Int) : Nat → Int :=
  fun i => if i = x then a else env i

/-! ### `_add_write_method` -/

inductive WriteMethod
  | physical
  | readOnly
  | alias (target : Nat)
  | transform (dest : Nat) (body : Expr)
  | outOfFuel
  deriving DecidableEq, Repr

/-- A field of the structure under consideration.  References (`Expr.ref i`) index the list
of fields; an index outside the list denotes a non-field object (a runtime parameter). -/
inductive Field
  | physical
  | virtual (readTransform : Expr) (hasRequires : Bool)
  deriving Repr

/-- The common tail of the alias and transform cases of `_add_write_method`: the referenced
object must be a field of the structure (`isinstance(referenced_field, ir_data.Field)`) and,
after computing *its* write method, must not be read-only. -/
def viaTarget (fields : List Field) (targetMethod : Nat → WriteMethod) (x : Nat)
    (result : WriteMethod) : WriteMethod :=
  match fields[x]? with
  | none => .readOnly
  | some _ =>
    match targetMethod x with
    | .readOnly => .readOnly
    | .outOfFuel => .outOfFuel
    | _ => result

/-- `_add_write_method` (recursing into the referenced field needs fuel: the front end has
already rejected dependency cycles, see C15). -/
def writeMethod (fields : List Field) : Nat → Nat → WriteMethod
  | 0, _ => .outOfFuel
  | fuel + 1, i =>
    match fields[i]? with
    | none => .readOnly   -- not reached for fields of the structure
    | some .physical => .physical
    | some (.virtual rt hasRequires) =>
      match rt, hasRequires with
      | .ref x, false => viaTarget fields (writeMethod fields fuel) x (.alias x)
      | _, _ =>
        -- read_transform is not a bare field reference, or the field has [requires]
        match invert rt with
        | some (.ref x, body) => viaTarget fields (writeMethod fields fuel) x (.transform x body)
        | _ => .readOnly

/-! ### The inverse as the generated C++ evaluates it -/

/-- Inclusive integer range `[lo, hi]` (`type.integer.minimum_value/maximum_value`). -/
structure Rng where
  lo : Int
  hi : Int
  deriving DecidableEq, Repr

/-- No field reference and no `$logical_value` below this node. -/
def isClosed : Expr → Bool
  | .const _ => true
  | .leaf _ => true
  | .un _ a => isClosed a
  | .bin _ a b => isClosed a && isClosed b
  | .tern _ a b c => isClosed a && isClosed b && isClosed c
  | _ => false

/-- Value of a node the front end types as a constant (`modulus == "infinity"`): a closed
node the model can evaluate.  (Closed nodes it cannot evaluate — `$max(1, 2)` — are replaced
by their annotated `modular_value` before they reach the model; constant folding is C05/C16.) -/
def constVal (e : Expr) : Option Int :=
  if isClosed e then eval (fun _ => 0) 0 e else none

/-- `expression_bounds` on the nodes of an inverse: constants, `$logical_value` (typed with
the virtual field's own range `lv`), ADDITION (`lo+lo, hi+hi`), SUBTRACTION (`lo-hi, hi-lo`).
`none`: outside the fragment `_invert_expression` produces. -/
def rangeOf (lv : Rng) : Expr → Option Rng
  | .const c => some ⟨c, c⟩
  | .logical => some lv
  | .bin op a b =>
    match constVal (.bin op a b) with
    | some c => some ⟨c, c⟩
    | none =>
      match op, rangeOf lv a, rangeOf lv b with
      | .add, some ra, some rb => some ⟨ra.lo + rb.lo, ra.hi + rb.hi⟩
      | .sub, some ra, some rb => some ⟨ra.lo - rb.hi, ra.hi - rb.lo⟩
      | _, _, _ => none
  | _ => none

/-- Outcome of evaluating generated C++: a value, undefined behaviour (signed overflow in
`IntermediateT`), no C++ type for a node (`_cpp_integer_type_for_range` returned `None`: the
header does not compile), or a node outside the modelled fragment. -/
inductive CRes
  | ok (v : Int)
  | ub
  | notype
  | unmodelled
  deriving DecidableEq, Repr

/-- A constant-typed node: `Maybe<T>(static_cast<T>(literal))`, `T` = the type for `[c, c]`. -/
def literal (c : Int) : CRes :=
  match typeForRange c c with
  | some _ => .ok c
  | none => .notype

def imin (a b : Int) : Int := if a ≤ b then a else b
def imax (a b : Int) : Int := if a ≤ b then b else a

/-- `IntermediateT` of a binary node: the type for the hull of the result's and the
operands' ranges. -/
def intermediateT (r ra rb : Rng) : Option IntTy :=
  typeForRange (imin r.lo (imin ra.lo rb.lo)) (imax r.hi (imax ra.hi rb.hi))

/-- `MaybeDo<IntermediateT, ResultT, Sum|DifferenceOperation, LeftT, RightT>` on known
operands: `static_cast<ResultT>(Do(static_cast<IntermediateT>(l), static_cast<IntermediateT>(r)))`.
Conversions wrap; arithmetic in a signed `IntermediateT` that leaves the type is undefined;
in an unsigned one it wraps. -/
def cppOp (isAdd : Bool) (r ra rb : Rng) (va vb : Int) : CRes :=
  match intermediateT r ra rb, typeForRange r.lo r.hi with
  | some it, some rt =>
    let x := wrap it va
    let y := wrap it vb
    let z := if isAdd then x + y else x - y
    if it.signed && !it.holds z then .ub else .ok (wrap rt (wrap it z))
  | _, _ => .notype

/-- `_render_expression(function_body)` evaluated on the candidate value `v`
(`emboss_reserved_local_value`, a value of the logical type).  Operands are evaluated
eagerly, left to right. -/
def cppEval (lv : Rng) (v : Int) : Expr → CRes
  | .const c => literal c
  | .logical => .ok v
  | .bin op a b =>
    match constVal (.bin op a b) with
    | some c => literal c
    | none =>
      match op with
      | .add | .sub =>
        match cppEval lv v a, cppEval lv v b with
        | .ok va, .ok vb =>
          match rangeOf lv (.bin op a b), rangeOf lv a, rangeOf lv b with
          | some r, some ra, some rb => cppOp (op == .add) r ra rb va vb
          | _, _, _ => .unmodelled
        | .ok _, bad => bad
        | bad, _ => bad
      | _ => .unmodelled
  | _ => .unmodelled

/-- Every run-time node of the inverse has an `IntermediateT` and a `ResultT`, and every
literal a type (what `_cpp_integer_type_for_range` needs for the header to compile). -/
def typesExist (lv : Rng) : Expr → Bool
  | .const c => (typeForRange c c).isSome
  | .logical => true
  | .bin op a b =>
    match constVal (.bin op a b) with
    | some c => (typeForRange c c).isSome
    | none =>
      typesExist lv a && typesExist lv b &&
      match rangeOf lv (.bin op a b), rangeOf lv a, rangeOf lv b with
      | some r, some ra, some rb => (intermediateT r ra rb).isSome && (typeForRange r.lo r.hi).isSome
      | _, _, _ => false
  | _ => false

/-- `(IntermediateT, ResultT, LeftT, RightT)` of every run-time node, preorder — the template
arguments of the `Sum`/`Difference` calls in the generated header (`none`: no such type). -/
def cppTypes (lv : Rng) : Expr → List (Option IntTy × Option IntTy × Option IntTy × Option IntTy)
  | .bin op a b =>
    match constVal (.bin op a b) with
    | some _ => []
    | none =>
      match rangeOf lv (.bin op a b), rangeOf lv a, rangeOf lv b with
      | some r, some ra, some rb =>
        (intermediateT r ra rb, typeForRange r.lo r.hi, typeForRange ra.lo ra.hi,
          typeForRange rb.lo rb.hi) :: (cppTypes lv a ++ cppTypes lv b)
      | _, _, _ => cppTypes lv a ++ cppTypes lv b
  | _ => []

/-- `logical_type`: the C++ parameter type of the virtual field's write methods. -/
def logicalType (lv : Rng) : Option IntTy := typeForRange lv.lo lv.hi

/-- The usual arithmetic conversions for two integer types of rank ≥ `int` (all the types
here are 32 or 64 bits wide): same signedness → the wider; otherwise the unsigned one if it
is at least as wide, else the signed one (which then holds every value of the unsigned). -/
def commonType (a b : IntTy) : IntTy :=
  if a.signed == b.signed then (if a.bits ≥ b.bits then a else b)
  else
    let u := if a.signed then b else a
    let s := if a.signed then a else b
    if u.bits ≥ s.bits then u else s

/-- C++ `a < b` for `a : ta`, `b : tb`. -/
def cppLt (ta : IntTy) (a : Int) (tb : IntTy) (b : Int) : Bool :=
  decide (wrap (commonType ta tb) a < wrap (commonType ta tb) b)

/-- The generated range check of `CouldWriteValue`:
`if (value < <lo> || value > <hi>) return false;` — the bounds rendered by `_render_integer`
(each a literal of the type for `[b, b]`), the lower comparison omitted when `lo == 0` and the
logical type is unsigned.  `some true`: the value passes.  `none`: a bound has no literal. -/
def rangeCheck (lv : Rng) (t : IntTy) (v : Int) : Option Bool :=
  match typeForRange lv.lo lv.lo, typeForRange lv.hi lv.hi with
  | some tlo, some thi =>
    let below := if lv.lo ≠ 0 ∨ t.signed then cppLt t v tlo lv.lo else false
    let above := cppLt thi lv.hi t v
    some (!(below || above))
  | _, _ => none

/-! ### Generated virtual write methods -/

/-- Abstract destination field: what the write methods of the template need from it.
`could u`: `CouldWriteValue(u)`; `complete`; `value`: what `Read()` currently returns. -/
structure Dest where
  could : Int → Bool
  complete : Bool
  value : Int

/-- Destination `TryToWrite` at the abstraction level of C03_write_then_read. -/
def Dest.tryToWrite (d : Dest) (u : Int) : Bool × Dest :=
  if d.could u && d.complete then (true, { d with value := u }) else (false, d)

/-- `CouldWriteValue(v)` of a virtual field with a transform write method:
`ValueIsOk(v) && <v inside the field's own range> && transform.Known() &&
destination.CouldWriteValue(transform)`; `lv` = the range of `read_transform`'s type, `t` the
logical type.  `none`: evaluating the generated code is not defined (undefined behaviour, a
missing type, an unmodelled node). -/
def virtualCould (lv : Rng) (t : IntTy) (body : Expr) (valueIsOk : Int → Bool) (d : Dest)
    (v : Int) : Option Bool :=
  if !valueIsOk v then some false
  else
    match rangeCheck lv t v with
    | none => none
    | some false => some false
    | some true =>
      match cppEval lv v body with
      | .ok u => some (d.could u)
      | _ => none

/-- `TryToWrite(v)`: `if (!CouldWriteValue(v)) return false;
return destination.TryToWrite(transform)` (the transform is computed after the check). -/
def virtualTryToWrite (lv : Rng) (t : IntTy) (body : Expr) (valueIsOk : Int → Bool) (d : Dest)
    (v : Int) : Option (Bool × Dest) :=
  match virtualCould lv t body valueIsOk d v with
  | none => none
  | some false => some (false, d)
  | some true =>
    match cppEval lv v body with
    | .ok u => some (d.tryToWrite u)
    | _ => none

end Emboss.WInf
