/-
Executable model of `compiler/front_end/write_inference.py`:
`_find_field_reference_path`, `_invert_expression`, `_add_write_method`, and of the generated
virtual-field write methods (template `structure_single_virtual_field_write_methods`).

Expressions: integer constants, field references, the `$logical_value` builtin, other
reference-free leaves, and functions of one, two or three arguments (every Emboss operator
and the two- and three-argument forms of the builtin functions; longer `$max(...)` lists are not
modelled — the harness reports them as unmodelled instead of guessing).
Imports nothing outside core.
-/
namespace Emboss.WInf

inductive Op
  | add | sub | mul
  | other (name : String)
  deriving DecidableEq, Repr

inductive Expr
  | const (v : Int)
  | ref (id : Nat)
  | logical
  | leaf (name : String)
  | un (name : String) (a : Expr)
  | bin (op : Op) (a b : Expr)
  | tern (name : String) (a b c : Expr)
  deriving DecidableEq, Repr

/-- One iteration of the loop in `_recursively_find_field_reference_path`:
`if arg_field_count == 1 and field_count == 0: path = [index] + arg_path;
field_count += arg_field_count`. -/
def step (acc : Nat × List Nat) (index : Nat) (r : Nat × List Nat) : Nat × List Nat :=
  (acc.1 + r.1, if r.1 = 1 ∧ acc.1 = 0 then index :: r.2 else acc.2)

/-- `if field_count == 1: return field_count, path else: return field_count, []`. -/
def finish (acc : Nat × List Nat) : Nat × List Nat :=
  if acc.1 = 1 then acc else (acc.1, [])

/-- `_recursively_find_field_reference_path`: (number of field references, path). -/
def find : Expr → Nat × List Nat
  | .ref _ => (1, [])
  | .un _ a => finish (step (0, []) 0 (find a))
  | .bin _ a b => finish (step (step (0, []) 0 (find a)) 1 (find b))
  | .tern _ a b c => finish (step (step (step (0, []) 0 (find a)) 1 (find b)) 2 (find c))
  | _ => (0, [])

/-- `_find_field_reference_path`. -/
def findPath (e : Expr) : Option (List Nat) :=
  if (find e).1 = 1 then some (find e).2 else none

/-- The loop of `_invert_expression` over the reference path: at each step one layer is
removed from `sub` and the inverse function is applied to `res`. -/
def invertAux : List Nat → Expr → Expr → Option (Expr × Expr)
  | [], sub, res => some (sub, res)
  | i :: rest, .bin .add a b, res =>
    -- result = SUBTRACTION(result, args[1 - index]); subexpression = args[index]
    if i = 0 then invertAux rest a (.bin .sub res b)
    else if i = 1 then invertAux rest b (.bin .sub res a)
    else none
  | i :: rest, .bin .sub a b, res =>
    if i = 0 then invertAux rest a (.bin .add res b)      -- ADDITION(result, args[1])
    else if i = 1 then invertAux rest b (.bin .sub a res)  -- SUBTRACTION(args[0], result)
    else none
  | _ :: _, _, _ => none

/-- `_invert_expression`: (the field reference reached, inverse over `$logical_value`). -/
def invert (e : Expr) : Option (Expr × Expr) :=
  match findPath e with
  | none => none
  | some path => invertAux path e .logical

/-- Integer evaluation (ℤ, no overflow): `env` gives the field values, `lv` the value of
`$logical_value`.  `none`: not evaluable in the model (opaque leaf / function). -/
def eval (env : Nat → Int) (lv : Int) : Expr → Option Int
  | .const v => some v
  | .ref i => some (env i)
  | .logical => some lv
  | .leaf _ => none
  | .un _ _ => none
  | .bin .add a b => do let x ← eval env lv a; let y ← eval env lv b; pure (x + y)
  | .bin .sub a b => do let x ← eval env lv a; let y ← eval env lv b; pure (x - y)
  | .bin .mul a b => do let x ← eval env lv a; let y ← eval env lv b; pure (x * y)
  | .bin (.other _) _ _ => none
  | .tern _ _ _ _ => none

def update (env : Nat → Int) (x : Nat) (a : Int) : Nat → Int :=
  fun i => if i = x then a else env i

/-! ### `_add_write_method` -/

inductive WriteMethod
  | physical
  | readOnly
  | alias (target : Nat)
  | transform (dest : Nat) (body : Expr)
  | outOfFuel
  deriving DecidableEq, Repr

/-- A field of the structure under consideration.  References (`Expr.ref i`) index the list
of fields; an index outside the list denotes a non-field object (a runtime parameter). -/
inductive Field
  | physical
  | virtual (readTransform : Expr) (hasRequires : Bool)
  deriving Repr

/-- The common tail of the alias and transform cases of `_add_write_method`: the referenced
object must be a field of the structure (`isinstance(referenced_field, ir_data.Field)`) and,
after computing *its* write method, must not be read-only. -/
def viaTarget (fields : List Field) (targetMethod : Nat → WriteMethod) (x : Nat)
    (result : WriteMethod) : WriteMethod :=
  match fields[x]? with
  | none => .readOnly
  | some _ =>
    match targetMethod x with
    | .readOnly => .readOnly
    | .outOfFuel => .outOfFuel
    | _ => result

/-- `_add_write_method` (recursing into the referenced field needs fuel: the front end has
already rejected dependency cycles, see C15). -/
def writeMethod (fields : List Field) : Nat → Nat → WriteMethod
  | 0, _ => .outOfFuel
  | fuel + 1, i =>
    match fields[i]? with
    | none => .readOnly   -- not reached for fields of the structure
    | some .physical => .physical
    | some (.virtual rt hasRequires) =>
      match rt, hasRequires with
      | .ref x, false => viaTarget fields (writeMethod fields fuel) x (.alias x)
      | _, _ =>
        -- read_transform is not a bare field reference, or the field has [requires]
        match invert rt with
        | some (.ref x, body) => viaTarget fields (writeMethod fields fuel) x (.transform x body)
        | _ => .readOnly

/-! ### Generated virtual write methods -/

/-- Abstract destination field: what the write methods of the template need from it.
`could u`: `CouldWriteValue(u)`; `complete`; `value`: what `Read()` currently returns. -/
structure Dest where
  could : Int → Bool
  complete : Bool
  value : Int

/-- Destination `TryToWrite` at the abstraction level of C03_write_then_read. -/
def Dest.tryToWrite (d : Dest) (u : Int) : Bool × Dest :=
  if d.could u && d.complete then (true, { d with value := u }) else (false, d)

/-- `CouldWriteValue(v)` of a virtual field with a transform write method:
`ValueIsOk(v) && transform.Known() && destination.CouldWriteValue(transform)`. -/
def virtualCould (body : Expr) (valueIsOk : Int → Bool) (d : Dest) (v : Int) : Bool :=
  valueIsOk v &&
    match eval (fun _ => 0) v body with
    | none => false
    | some u => d.could u

/-- `TryToWrite(v)`: `if (!CouldWriteValue(v)) return false;
return destination.TryToWrite(transform)`. -/
def virtualTryToWrite (body : Expr) (valueIsOk : Int → Bool) (d : Dest) (v : Int) : Bool × Dest :=
  if virtualCould body valueIsOk d v then
    match eval (fun _ => 0) v body with
    | none => (false, d)
    | some u => d.tryToWrite u
  else (false, d)

end Emboss.WInf
