/-
Impl model of `_verify_generated_identifiers_are_distinct` (C++ back end, since
fixes/C07-reject-generated-identifier-clashes): the back end lists every identifier the
generated code declares, per C++ scope (`_generated_identifiers`; here the scopes of
`Emboss.Names`), and walks each scope in order with a dictionary `seen` that keeps the *first*
declaration of every identifier; a later declaration of the same identifier is an error unless
both belong to the same overload set.
-/
import Emboss.Model.Names
namespace Emboss.Names

/-- The loop over the declarations of one scope: `seen` (first declarations so far, in order),
then the remaining declarations.  `true` = no error. -/
def checkLoop : List Decl → List Decl → Bool
  | _, [] => true
  | seen, d :: ds =>
    match seen.find? (fun e => e.ident == d.ident) with
    | none => checkLoop (seen ++ [d]) ds
    | some e => compatible e d && checkLoop seen ds

/-- The scopes of one structure: its view class and the two scopes its `<Struct>::…` references
are looked up in. -/
def structScopes (st : Struct) : List (List Decl) := [classScope st, typeRefScope st, nestedRefScope st]

/-- The new clause of "accepted by the back end": no error in any scope. -/
def identifiersDistinct (scopes : List (List Decl)) : Bool := scopes.all (checkLoop [])

end Emboss.Names
