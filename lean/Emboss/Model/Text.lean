/-
Model of runtime/cpp/emboss_text_util.h (property C06): integer text codec and the
tokenizer.

Import-free (core Lean only) so that the driver links as a plain `lean_exe`.
Text is `List Char` (the C++ works on `char`s of a `std::string`; the harness only
ever sends 7-bit ASCII, bytes ≥ 0x80 are rejected by both sides as non-digits).
-/
namespace Emboss.Text

/-! ## The eight integer types `DecodeInteger`/`WriteIntegerToTextStream` are
instantiated with (view `ValueType`s, `size_t` array indices, enum underlying types). -/

inductive IntTy where
  | i8 | i16 | i32 | i64 | u8 | u16 | u32 | u64
  deriving DecidableEq, Repr

namespace IntTy

/-- `::std::is_signed<IntType>::value`. -/
def signed : IntTy → Bool
  | i8 | i16 | i32 | i64 => true
  | _ => false

def bits : IntTy → Nat
  | i8 | u8 => 8
  | i16 | u16 => 16
  | i32 | u32 => 32
  | i64 | u64 => 64

/-- `::std::numeric_limits<IntType>::min()` (= `lowest()` for integers). -/
def minVal : IntTy → Int
  | i8 => -128
  | i16 => -32768
  | i32 => -2147483648
  | i64 => -9223372036854775808
  | _ => 0

/-- `::std::numeric_limits<IntType>::max()`. -/
def maxVal : IntTy → Int
  | i8 => 127
  | i16 => 32767
  | i32 => 2147483647
  | i64 => 9223372036854775807
  | u8 => 255
  | u16 => 65535
  | u32 => 4294967295
  | u64 => 18446744073709551615

/-- The value is representable in the type. -/
def InRange (T : IntTy) (x : Int) : Prop := T.minVal ≤ x ∧ x ≤ T.maxVal

instance (T : IntTy) (x : Int) : Decidable (T.InRange x) := by
  unfold InRange; exact inferInstance

end IntTy

/-- The three bases `WriteIntegerToTextStream` accepts
(`EMBOSS_CHECK(base == 10 || base == 2 || base == 16)`). -/
inductive Base where
  | b2 | b10 | b16
  deriving DecidableEq, Repr

def Base.toNat : Base → Nat
  | .b2 => 2
  | .b10 => 10
  | .b16 => 16

/-- `const int grouping = base == 10 ? 3 : base == 16 ? 4 : 8;` -/
def groupSize (base : Nat) : Nat :=
  if base = 10 then 3 else if base = 16 then 4 else 8

/-- `digits[d]` with `digits = "0123456789abcdef"`. -/
def digitChar : Nat → Char
  | 0 => '0' | 1 => '1' | 2 => '2' | 3 => '3' | 4 => '4' | 5 => '5' | 6 => '6' | 7 => '7'
  | 8 => '8' | 9 => '9' | 10 => 'a' | 11 => 'b' | 12 => 'c' | 13 => 'd' | 14 => 'e'
  | 15 => 'f' | _ => '?'

/-- The `while (value > 0)` loop of `WriteIntegerToTextStream`.  The C++ fills a
buffer from the right; the model prepends to `buf`.  `count` is `digit_count`. -/
def writeLoop (base : Nat) (grouping : Bool) (v count : Nat) (buf : List Char) : List Char :=
  if _h : v = 0 ∨ base < 2 then buf
  else
    let buf1 := if count ≠ 0 ∧ count % groupSize base = 0 ∧ grouping = true then '_' :: buf else buf
    writeLoop base grouping (v / base) (count + 1) (digitChar (v % base) :: buf1)
termination_by v
decreasing_by exact Nat.div_lt_self (by omega) (by omega)

/-- The `0x` / `0b` prefix (pushed as `'x'` then `'0'`, right to left). -/
def basePrefix : Base → List Char
  | .b16 => ['0', 'x']
  | .b2 => ['0', 'b']
  | .b10 => []

/-- The digits of `WriteIntegerToTextStream` (everything right of prefix and sign), for
`IntegralType = T`, `b` = the numeric base.  Integer arithmetic is mathematical (`Int`/`Nat`):
for `value` in the range of `T` none of the C++ expressions overflows (`-(value + 1)` is
the reason for the `lowest()` special case). -/
def writeBody (T : IntTy) (x : Int) (b : Nat) (grouping : Bool) : List Char :=
  -- `if (value == 0) { buffer[next_char] = digits[0]; --next_char; }`
  let buf0 : List Char := if x = 0 then ['0'] else []
  if x < 0 then
    if x = T.minVal then
      -- `auto digit = -(value + 1) % base + 1; value = -(value + 1) / base;`
      let m : Nat := (-(x + 1)).toNat
      let digit := m % b + 1
      let value := m / b
      -- `if (digit == base) { digit = 0; ++value; }`
      let digit' := if digit = b then 0 else digit
      let value' := if digit = b then value + 1 else value
      writeLoop b grouping value' 1 (digitChar digit' :: buf0)
    else
      writeLoop b grouping (-x).toNat 0 buf0
  else
    writeLoop b grouping x.toNat 0 buf0

/-- `WriteIntegerToTextStream(value, stream, base, digit_grouping)`: prefix, then sign
(both pushed right-to-left after the digits). -/
def writeInt (T : IntTy) (x : Int) (base : Base) (grouping : Bool) : List Char :=
  let s := basePrefix base ++ writeBody T x base.toNat grouping
  if x < 0 then '-' :: s else s

/-- The digit classification of `DecodeInteger` (`c - '0'`, `c - 'A' + 10`, `c - 'a' + 10`). -/
def decodeDigit (c : Char) : Option Nat :=
  let n := c.toNat
  if 48 ≤ n ∧ n ≤ 57 then some (n - 48)
  else if 65 ≤ n ∧ n ≤ 70 then some (n - 65 + 10)
  else if 97 ≤ n ∧ n ≤ 102 then some (n - 97 + 10)
  else none

/-- The `for (; offset < text.size(); ++offset)` loop of `DecodeInteger`.
`atStart` is `offset == 0` (true only for the very first character of a text without
sign and prefix); `lo`/`hi` are `numeric_limits<IntType>::min()/max()`; the division is
C++'s truncating `/` (`Int.tdiv`). -/
def decodeLoop (lo hi : Int) (neg : Bool) (base : Nat) : Bool → Int → List Char → Option Int
  | _, acc, [] => some acc
  | atStart, acc, c :: cs =>
    if c = '_' then
      if atStart then none else decodeLoop lo hi neg base false acc cs
    else
      match decodeDigit c with
      | none => none
      | some d =>
        if base ≤ d then none
        else if neg then
          if acc < Int.tdiv (lo + (d : Int)) (base : Int) then none
          else decodeLoop lo hi neg base false (acc * (base : Int) - (d : Int)) cs
        else
          if acc > Int.tdiv (hi - (d : Int)) (base : Int) then none
          else decodeLoop lo hi neg base false (acc * (base : Int) + (d : Int)) cs

/-- Sign handling: a leading `-` is consumed only for signed types. -/
def splitSign (T : IntTy) : List Char → Bool × List Char
  | '-' :: r => if T.signed then (true, r) else (false, '-' :: r)
  | s => (false, s)

/-- Prefix handling: `0x`/`0X` ⇒ 16, `0b`/`0B` ⇒ 2, else 10 and nothing consumed.
Third component: something was consumed. -/
def splitBase : List Char → Nat × List Char × Bool
  | '0' :: c :: r =>
    if c = 'x' ∨ c = 'X' then (16, r, true)
    else if c = 'b' ∨ c = 'B' then (2, r, true)
    else (10, '0' :: c :: r, false)
  | s => (10, s, false)

/-- `DecodeInteger<IntType = T>(text, &result)`: `none` = returns false. -/
def decodeInt (T : IntTy) (s : List Char) : Option Int :=
  let (neg, s1) := splitSign T s
  let (base, s2, pfx) := splitBase s1
  if s2 = [] then none
  else decodeLoop T.minVal T.maxVal neg base (!neg && !pfx) 0 s2

/-! ## Tokenizer: `DiscardWhitespace` / `ReadToken` over a `TextStream`.

The stream is the list of characters not yet read.  `Unread(c)` is only ever called
with the character just read, so it cannot fail and is modelled by not consuming. -/

def isSpace (c : Char) : Bool := c = ' ' || c = '\t' || c = '\n' || c = '\r'

/-- `strchr(":{}[],", c) != nullptr` (for `c ≠ '\0'`). -/
def isPunct (c : Char) : Bool :=
  c = ':' || c = '{' || c = '}' || c = '[' || c = ']' || c = ','

/-- `DiscardWhitespace`: returns the rest of the stream, positioned at the first
character that is neither white space nor inside a `#` comment. -/
def discardWs : Bool → List Char → List Char
  | _, [] => []
  | inComment, c :: cs =>
    let ic := if c = '\r' ∨ c = '\n' then false else if c = '#' then true else inComment
    if ic || isSpace c then discardWs ic cs else c :: cs

/-- The `do … while` of `ReadToken` after the first character: collects characters up
to (not including) white space, `#` or punctuation. -/
def tokenBody : List Char → List Char × List Char
  | [] => ([], [])
  | c :: cs =>
    if isSpace c || c = '#' || isPunct c then ([], c :: cs)
    else let (t, r) := tokenBody cs; (c :: t, r)

/-- `ReadToken` started with `DiscardWhitespace`'s `in_comment` flag = `ic` (the real
function always starts with `false`; the generalisation is what the proofs induct on). -/
def readTokenFrom (ic : Bool) (s : List Char) : List Char × List Char :=
  match discardWs ic s with
  | [] => ([], [])
  | c :: cs =>
    if isPunct c then ([c], cs)
    else let (t, r) := tokenBody cs; (c :: t, r)

/-- `ReadToken`: `(token, rest)`; the empty token means end of input. -/
def readToken (s : List Char) : List Char × List Char := readTokenFrom false s

/-- All tokens of a text: `ReadToken` until it returns the empty token.  Fuel = length
of the input + 1 (each non-empty token consumes at least one character);
`none` = out of fuel. -/
def tokensAuxFrom (ic : Bool) : Nat → List Char → Option (List (List Char))
  | 0, _ => none
  | fuel + 1, s =>
    match readTokenFrom ic s with
    | ([], _) => some []
    | (t, r) => (tokensAuxFrom false fuel r).map (t :: ·)

def tokens (s : List Char) : Option (List (List Char)) := tokensAuxFrom false (s.length + 1) s

end Emboss.Text
