/-
Impl model of `compiler/front_end/lr1.py` — the table-driven part.

* `Rule`, `Token`, `Tree`          — `parser_types.Production`, `parser_types.Token`,
                                     `lr1.Reduction` (children + production; the derived
                                     `source_location` is not modelled).
* `Action`, `Automaton`            — `Shift/Reduce/Accept/Error`, `lr1.Parser` (action, goto,
                                     productions, default_errors).  `strict` records whether the
                                     tables are plain `dict`s (`generated/cached_parser.py`) or
                                     `defaultdict(dict)`s (`Grammar.parser()`): `self.action[state()]`
                                     in the Error branch raises `KeyError` for the former when the
                                     state has no row.
* `step`, `run`                    — the loop of `Parser.parse`: implicit end-of-input token
                                     (a client token with symbol `$` has no action), default errors, "absent ⇒ Error(None)", expected set, and
                                     every way the Python code can raise (`internal`).
Symbols, error codes and token texts are `Nat`s (interned by the harness).
-/
namespace Emboss.Lr1

structure Rule where
  lhs : Nat
  rhs : List Nat
deriving DecidableEq, Repr

structure Token where
  sym : Nat
  text : Nat
deriving DecidableEq, Repr

inductive Tree where
  | leaf (t : Token)
  | node (p : Rule) (cs : List Tree)

mutual
def Tree.decEq : (a b : Tree) → Decidable (a = b)
  | .leaf t, .leaf u =>
    if h : t = u then isTrue (by rw [h]) else isFalse (by intro h'; cases h'; exact h rfl)
  | .leaf _, .node _ _ => isFalse (by intro h; cases h)
  | .node _ _, .leaf _ => isFalse (by intro h; cases h)
  | .node p cs, .node q ds =>
    if h : p = q then
      match Tree.decEqList cs ds with
      | isTrue h2 => isTrue (by rw [h, h2])
      | isFalse h2 => isFalse (by intro h'; cases h'; exact h2 rfl)
    else isFalse (by intro h'; cases h'; exact h rfl)
def Tree.decEqList : (a b : List Tree) → Decidable (a = b)
  | [], [] => isTrue rfl
  | [], _ :: _ => isFalse (by intro h; cases h)
  | _ :: _, [] => isFalse (by intro h; cases h)
  | a :: as, b :: bs =>
    match Tree.decEq a b with
    | isTrue h1 =>
      match Tree.decEqList as bs with
      | isTrue h2 => isTrue (by rw [h1, h2])
      | isFalse h2 => isFalse (by intro h'; cases h'; exact h2 rfl)
    | isFalse h1 => isFalse (by intro h'; cases h'; exact h1 rfl)
end
instance : DecidableEq Tree := Tree.decEq

def Tree.root : Tree → Nat
  | .leaf t => t.sym
  | .node p _ => p.lhs

inductive Action where
  | shift (s : Nat)
  | reduce (pi : Nat)
  | accept
  | error (code : Option Nat)
deriving DecidableEq, Repr

def Action.isError : Action → Bool
  | .error _ => true
  | _ => false

abbrev Row := List (Nat × Action)

structure Automaton where
  /-- `Parser.productions`; `Reduce` actions refer to it by index. -/
  prods : List Rule
  /-- `Parser.action`: one optional row per state (`none` = the dict has no such key). -/
  action : Array (Option Row)
  /-- `Parser.goto` (absent row ≡ empty row: both are a `KeyError` on lookup). -/
  goto : Array (List (Nat × Nat))
  /-- `Parser.default_errors`. -/
  defaultErrors : List (Nat × Nat)
  /-- plain-`dict` tables (cached parser) rather than `defaultdict`s (fresh parser). -/
  strict : Bool
  /-- the code of `lr1.END_OF_INPUT` (`"$"`). -/
  eoi : Nat

def Automaton.row (A : Automaton) (s : Nat) : Option Row := (A.action[s]?).join

/-- The raw table entry `self.action[s][a]`, if present. -/
def Automaton.entry (A : Automaton) (s a : Nat) : Option Action :=
  match A.row s with
  | some r => r.lookup a
  | none => none

def Automaton.gotoOf (A : Automaton) (s x : Nat) : Option Nat :=
  ((A.goto[s]?).getD []).lookup x

/-- The action taken when the symbol has no entry in the row of `s`: the state's default
error code, or `Error(None)`. -/
def Automaton.defaultAction (A : Automaton) (s : Nat) : Action :=
  match A.defaultErrors.lookup s with
  | some c => .error (some c)
  | none => .error none

/-- The action `parse` takes in state `s` on symbol `a` (first `if` of the loop). -/
def Automaton.actionOf (A : Automaton) (s a : Nat) : Action :=
  match A.entry s a with
  | some x => x
  | none => A.defaultAction s

/-- Keys of a row whose action is not an `Error` (`expected_tokens`). -/
def expectedOfRow (r : Row) : List Nat :=
  (r.map (·.1)).filter (fun k => match r.lookup k with | some a => !a.isError | none => false)

structure Config where
  /-- top first; the bottom entry `(0, None)` is implicit. -/
  stack : List (Nat × Tree)
  cursor : Nat
deriving DecidableEq

def topState : List (Nat × Tree) → Nat
  | [] => 0
  | (s, _) :: _ => s

inductive Result where
  | accept (t : Tree)
  | error (code : Option Nat) (index : Nat) (state : Nat) (expected : List Nat)
  | internal (why : String)
  | outOfFuel
deriving DecidableEq

inductive StepOut where
  | next (c : Config)
  | done (r : Result)
deriving DecidableEq

/-- `tokens[cursor].symbol` after `tokens.append(Token("$", ...))`. -/
def lookahead (A : Automaton) (w : List Token) (i : Nat) : Nat :=
  match w[i]? with
  | some t => t.sym
  | none => A.eoi

/-- `symbol == END_OF_INPUT and cursor != len(tokens) - 1`: a *client* token that uses the
end-of-input marker as its symbol.  `parse` then looks up `None`, which has no table entry
(fix 935ff56). -/
def clientEoi (A : Automaton) (w : List Token) (i : Nat) : Bool :=
  match w[i]? with
  | some t => t.sym == A.eoi
  | none => false

/-- The action `parse` takes with `s` on top of the stack and the cursor at `i`. -/
def nextAction (A : Automaton) (w : List Token) (s i : Nat) : Action :=
  if clientEoi A w i then A.defaultAction s else A.actionOf s (lookahead A w i)

def step (A : Automaton) (w : List Token) (c : Config) : StepOut :=
  let s := topState c.stack
  let a := lookahead A w c.cursor
  match nextAction A w s c.cursor with
  | .shift s' =>
    match w[c.cursor]? with
    | some t => .next ⟨(s', .leaf t) :: c.stack, c.cursor + 1⟩
    | none => .done (.internal "IndexError: shift of the end-of-input token")
  | .accept =>
    match c.stack with
    | [(_, t)] =>
      if a = A.eoi then .done (.accept t)
      else .done (.internal "AssertionError: accepted parse before end of input")
    | _ => .done (.internal "AssertionError: accepted incompletely-reduced input")
  | .reduce pi =>
    match A.prods[pi]? with
    | none => .done (.internal "reduce by an unknown production")
    | some p =>
      let n := p.rhs.length
      if n ≤ c.stack.length then
        let children := ((c.stack.take n).map (·.2)).reverse
        let st := c.stack.drop n
        match A.gotoOf (topState st) p.lhs with
        | some s' => .next ⟨(s', .node p children) :: st, c.cursor⟩
        | none => .done (.internal "KeyError: goto")
      else .done (.internal "stack underflow")
  | .error code =>
    match A.row s with
    | some r => .done (.error code c.cursor s (expectedOfRow r))
    | none =>
      if A.strict then .done (.internal "KeyError: action row")
      else .done (.error code c.cursor s [])

def runFrom (A : Automaton) (w : List Token) : Nat → Config → Result
  | 0, _ => .outOfFuel
  | f + 1, c =>
    match step A w c with
    | .next c' => runFrom A w f c'
    | .done r => r

def init : Config := ⟨[], 0⟩

/-- `Parser.parse(tokens)` with a step budget. -/
def run (A : Automaton) (fuel : Nat) (w : List Token) : Result := runFrom A w fuel init

end Emboss.Lr1
