/-
Impl model for C19: what the front end decides about an `enum`
(`attribute_checker._add_missing_width_and_sign_attributes_on_enum`,
`_verify_width_attribute_on_enum`, `constraints._check_that_enum_values_are_representable`),
what the C++ back end emits for it (`header_generator._generate_enum_definition`,
`_cpp_integer_type_for_enum`, `_split_enum_case_values`, `_verify_enum_case_attribute`,
`_get_enum_value_names`, `$default` propagation, `name_conversion.convert_case`), the
meaning of the three generated functions as list programs, and `EnumView::Read` /
`CouldWriteValue` (`runtime/cpp/emboss_enum_view.h`).

Names are `List Char` (ASCII by the tokenizer's `ShoutyWord` pattern).
Import-free apart from `Emboss.Model.CppInt`.
-/
import Emboss.Model.CppInt
namespace Emboss.Enum
open Emboss.CppInt

abbrev Name := List Char

/-! ## name_conversion.py -/

/-- Python `str.split('_')`. -/
def splitUnderscore : List Char → List (List Char)
  | [] => [[]]
  | c :: cs =>
    if c = '_' then [] :: splitUnderscore cs
    else match splitUnderscore cs with
      | [] => [[c]]            -- unreachable: the result is never empty
      | w :: ws => (c :: w) :: ws

/-- Python `str.capitalize()` on ASCII text. -/
def capitalize : List Char → List Char
  | [] => []
  | c :: cs => c.toUpper :: cs.map Char.toLower

/-- `snake_to_camel`: `"".join(word.capitalize() for word in name.split("_"))`. -/
def snakeToCamel (n : Name) : Name := ((splitUnderscore n).map capitalize).flatten

inductive Case where
  | shouty
  | kCamel
deriving DecidableEq, Repr

def shoutyText : List Char := "SHOUTY_CASE".toList
def kCamelText : List Char := "kCamelCase".toList

/-- `_SUPPORTED_ENUM_CASES` lookup. -/
def parseCase (t : List Char) : Option Case :=
  if t = shoutyText then some .shouty else if t = kCamelText then some .kCamel else none

/-- `convert_case("SHOUTY_CASE", case, name)`. -/
def convertCase : Case → Name → Name
  | .shouty, n => n
  | .kCamel, n => 'k' :: snakeToCamel n

/-! ## `_split_enum_case_values` -/

/-- Python `str.isspace()` for one character. -/
def isSpace (c : Char) : Bool :=
  let n := c.toNat
  (9 ≤ n && n ≤ 13) || (28 ≤ n && n ≤ 32) || n == 0x85 || n == 0xA0 || n == 0x1680 ||
    (0x2000 ≤ n && n ≤ 0x200A) || n == 0x2028 || n == 0x2029 || n == 0x202F || n == 0x205F ||
    n == 0x3000

/-- Python `str.split(',')`. -/
def splitComma : List Char → List (List Char)
  | [] => [[]]
  | c :: cs =>
    if c = ',' then [] :: splitComma cs
    else match splitComma cs with
      | [] => [[c]]
      | w :: ws => (c :: w) :: ws

def trimLeft (s : List Char) : List Char := s.dropWhile isSpace
def trim (s : List Char) : List Char := (trimLeft (trimLeft s).reverse).reverse

/-- Drop a final all-blank piece unless it is the only piece ("no span is yielded for a
trailing comma"; the scan's `if substr_start == end and start != 0: break`). -/
def dropTrailingBlank (ps : List (List Char)) : List (List Char) :=
  match ps.reverse with
  | last :: p :: rest => if (trimLeft last).isEmpty then (p :: rest).reverse else ps
  | _ => ps

/-- `_split_enum_case_values(text)`. -/
def splitCases (text : List Char) : List (List Char) :=
  (dropTrailingBlank (splitComma text)).map trim

/-- `_verify_enum_case_attribute` reports no error: every case non-empty, no duplicates,
all supported. -/
def verifyCases (text : List Char) : Bool :=
  let cs := splitCases text
  cs.all (fun c => !c.isEmpty) && decide cs.Nodup && cs.all (fun c => (parseCase c).isSome)

/-! ## attributes and `$default` propagation -/

/-- An attribute *named* `enum_case` with its back-end specifier.  Since the repair of
`ir_util.get_attribute` / `attribute_util.gather_default_attributes` (look-ups honour the
back end) only `(cpp)` ones count for the C++ back end. -/
structure Attr where
  backEnd : List Char
  isDefault : Bool
  text : List Char
deriving DecidableEq, Repr

/-- `gather_default_attributes`: later `$default`s of one object override earlier ones and
inherited ones. -/
def Attr.isCpp (a : Attr) : Bool := a.backEnd == ['c', 'p', 'p']

def gatherDefault (inherited : Option (List Char)) (attrs : List Attr) : Option (List Char) :=
  attrs.foldl (fun acc a => if a.isDefault && a.isCpp then some a.text else acc) inherited

/-- Defaults in force at an enum value; `levels` = the `enum_case` attributes of the module,
the enclosing type definitions (outermost first) and the enum itself. -/
def defaultsOf (levels : List (List Attr)) : Option (List Char) := levels.foldl gatherDefault none

inductive Effective where
  | crash                       -- `get_attribute`'s duplicate assertion fires
  | cases (text : List Char)
  | unset                       -- no attribute, no default: `["SHOUTY_CASE"]`
deriving DecidableEq, Repr

/-- `_add_missing_enum_case_attribute_on_enum_value` followed by the lookup in
`_get_enum_value_names`. -/
def effectiveCase (valueAttrs : List Attr) (dflt : Option (List Char)) : Effective :=
  match valueAttrs.filter (fun a => !a.isDefault && a.isCpp) with
  | [] => match dflt with
    | none => .unset
    | some t => .cases t
  | [a] => .cases a.text
  | _ => .crash

/-! ## the enum definition as the front end leaves it -/

structure Value where
  name : Name
  value : Int
  attrs : List Attr := []
deriving Repr

structure Def where
  name : Name
  maxBitsAttr : Option Int := none
  signedAttr : Option Bool := none
  /-- `enum_case` attributes of module / enclosing types / the enum, outermost first. -/
  levels : List (List Attr) := []
  values : List Value
deriving Repr

/-- `_add_missing_width_and_sign_attributes_on_enum`: default 64. -/
def Def.maxBits (d : Def) : Int :=
  match d.maxBitsAttr with
  | some b => b
  | none => 64

/-- … and signed iff some value is negative, unless stated. -/
def Def.isSigned (d : Def) : Bool :=
  match d.signedAttr with
  | some b => b
  | none => d.values.any (fun v => decide (v.value < 0))

/-- `_verify_width_attribute_on_enum`. -/
def Def.widthOk (d : Def) : Bool := decide (1 ≤ d.maxBits) && decide (d.maxBits ≤ 64)

/-- the range used by `_check_that_enum_values_are_representable`. -/
def inRange (signed : Bool) (bits : Nat) (v : Int) : Bool :=
  if signed then decide (-(pow2 (bits - 1)) ≤ v) && decide (v ≤ pow2 (bits - 1) - 1)
  else decide (0 ≤ v) && decide (v ≤ pow2 bits - 1)

def Def.representable (d : Def) : Bool :=
  d.values.all (fun v => inRange d.isSigned d.maxBits.toNat v.value)

/-- The enum-specific part of "the front end accepts the module". -/
def Def.frontAccepts (d : Def) : Bool := d.widthOk && d.representable

/-- The declared (Emboss name, value) list: what the property statement quantifies over. -/
def Def.declared (d : Def) : List (Name × Int) := d.values.map (fun v => (v.name, v.value))

/-! ## back end -/

/-- `_cpp_integer_type_for_enum`; `none` = `assert False`. -/
def cppTypeForEnum (maxBits : Int) (signed : Bool) : Option IntTy :=
  if maxBits ≤ 8 then some ⟨signed, 8⟩
  else if maxBits ≤ 16 then some ⟨signed, 16⟩
  else if maxBits ≤ 32 then some ⟨signed, 32⟩
  else if maxBits ≤ 64 then some ⟨signed, 64⟩
  else none

/-- `_get_enum_value_names` for an effective attribute; `none` = crash (`KeyError` in
`convert_case` for an unsupported case, or the duplicate-attribute assertion). -/
def enumeratorNames (n : Name) : Effective → Option (List Name)
  | .crash => none
  | .unset => some [n]
  | .cases t => (splitCases t).mapM (fun c => (parseCase c).map (fun k => convertCase k n))

/-- Everything `_generate_enum_definition` emits, as data. -/
structure Gen where
  ty : IntTy
  /-- `NAME = value,` lines in order; value = the *rendered* front-end value. -/
  enumerators : List (Name × Int) := []
  /-- `if (!strcmp("<emboss name>", s)) { *r = Enum::<enumerator>; return true; }` -/
  fromName : List (Name × Name) := []
  /-- `case Enum::<enumerator>: return "<emboss name>";` -/
  toName : List (Name × Name) := []
  /-- `case Enum::<enumerator>: return true;` -/
  known : List Name := []
deriving Repr

/-- State of the loop over `type_ir.enumeration.value`. -/
structure LoopState where
  gen : Gen
  seen : List Int := []

/-- Inner loop: one pass per enumerator name of one value.  Note that
`previously_seen_numeric_values.add` sits inside this loop, so only the first spelling of
the first value with a given number gets a `case` label. -/
def stepNames (emboss : Name) (v : Int) : LoopState → List Name → LoopState
  | st, [] => st
  | st, x :: xs =>
    let fresh := !st.seen.contains v
    let g := st.gen
    let g' : Gen := { g with
      enumerators := g.enumerators ++ [(x, v)]
      fromName := g.fromName ++ [(emboss, x)]
      toName := if fresh then g.toName ++ [(x, emboss)] else g.toName
      known := if fresh then g.known ++ [x] else g.known }
    stepNames emboss v ⟨g', if fresh then st.seen ++ [v] else st.seen⟩ xs

def stepValues (dflt : Option (List Char)) : LoopState → List Value → Option LoopState
  | st, [] => some st
  | st, v :: vs =>
    match enumeratorNames v.name (effectiveCase v.attrs dflt) with
    | none => none
    | some names => stepValues dflt (stepNames v.name v.value st names) vs

/-- `_generate_enum_definition` (with traits). -/
def generate (d : Def) : Option Gen :=
  match cppTypeForEnum d.maxBits d.isSigned with
  | none => none
  | some ty => (stepValues (defaultsOf d.levels) ⟨{ ty := ty }, []⟩ d.values).map (·.gen)

/-! ## `_verify_generated_enum_value_names_are_distinct` (back end, since commit dca9b37) -/

/-- `_get_enum_value_names(value)` after `$default` propagation; `none` = crash. -/
def Def.spellings (d : Def) (v : Value) : Option (List Name) :=
  enumeratorNames v.name (effectiveCase v.attrs (defaultsOf d.levels))

/-- The `seen` dictionary loop of `_check_generated_name`: `false` as soon as a C++ name was
already generated (an error is appended; the header is not produced). -/
def distinctLoop (seen : List Name) : List Name → Bool
  | [] => true
  | x :: xs => !seen.contains x && distinctLoop (x :: seen) xs

/-- No "Enum values '…' and '…' would both be named '…' in the generated C++ code." error:
over all values in order, over all spellings of each value in order. -/
def Def.namesDistinct (d : Def) : Bool :=
  match d.values.mapM d.spellings with
  | none => false               -- the duplicate-attribute assertion / KeyError: no header either
  | some ls => distinctLoop [] ls.flatten

/-- `_verify_attribute_values`: every `(cpp)` attribute named `enum_case` in reach of the enum
(attributes addressed to other back ends are that back end's business). -/
def Def.attrsVerified (d : Def) : Bool :=
  (d.levels.flatten ++ d.values.flatMap (·.attrs)).all (fun a => !a.isCpp || verifyCases a.text)

/-- The enum-specific part of "the C++ back end accepts the module" (returns a header). -/
def Def.backAccepts (d : Def) : Bool := d.attrsVerified && d.namesDistinct

/-! ## what the generated C++ means -/

/-- `Enum::<x>`: the enumerator of that name (the first, if the header were to compile with
two — it does not). -/
def lookup (es : List (Name × Int)) (x : Name) : Option Int :=
  (es.find? (fun p => p.1 == x)).map (·.2)

/-- C++ value of each enumerator: the rendered literal, converted to the underlying type. -/
def Gen.cppEnumerators (g : Gen) : Option (List (Name × Int)) :=
  g.enumerators.mapM (fun p => (enumeratorValue g.ty p.2).map (fun x => (p.1, x)))

/-- `TryToGetEnumFromName(s, &r)`: `none` for `nullptr` or no `strcmp` hit. -/
def Gen.cppFromName (g : Gen) (es : List (Name × Int)) (s : Option Name) : Option Int :=
  match s with
  | none => none
  | some n =>
    match g.fromName.find? (fun p => p.1 == n) with
    | none => none
    | some p => lookup es p.2

/-- `TryToGetNameFromEnum(v)`: the `switch` picks the label whose value is `v`. -/
def Gen.cppToName (g : Gen) (es : List (Name × Int)) (v : Int) : Option Name :=
  (g.toName.find? (fun p => lookup es p.1 == some v)).map (·.2)

/-- `EnumIsKnown(v)`. -/
def Gen.cppIsKnown (g : Gen) (es : List (Name × Int)) (v : Int) : Bool :=
  g.known.any (fun x => lookup es x == some v)

/-- The values of the `case` labels of the two switches. -/
def Gen.labelValues (g : Gen) (es : List (Name × Int)) : List (Option Int) :=
  g.toName.map (fun p => lookup es p.1)

/-- What `operator<<` sends to the stream. -/
inductive Shown where
  | name (n : Name)
  | number (v : Int)
deriving DecidableEq, Repr

/-- `operator<<` (`SendToOstream`): the name if there is one, else
`os << +static_cast<underlying_type>(v)` — the unary `+` promotes `(u)int8_t` (character types
for `ostream`) to `int`, so every underlying type is streamed as a decimal number. -/
def Gen.cppShow (g : Gen) (es : List (Name × Int)) (v : Int) : Shown :=
  match g.cppToName es v with
  | some n => .name n
  | none => .number v

/-! ## `EnumView` over a `kBits`-wide field -/

/-- `EnumView::Read()`: the `w` raw bits, zero-extended into `BitViewType::ValueType`, cast
to the enum's underlying type. -/
def viewRead (ty : IntTy) (raw : Nat) : Int := wrap ty raw

/-- `EnumView::ToBitViewValue` (since `fix: f572d62`): the value converted to the *unsigned
counterpart of the enum's underlying type* first and then to `BitViewType::ValueType` (an
unsigned type of `bvt` bits) — so a negative value is not sign-extended past the enum's width. -/
def toBitViewValue (ty : IntTy) (bvt : Nat) (v : Int) : Int :=
  wrap ⟨false, bvt⟩ (wrap ⟨false, ty.bits⟩ v)

/-- `EnumView::CouldWriteValue(value)` with `ValueIsOk` = true; `bvt` = width of
`BitViewType::ValueType` (an unsigned type), `w` = `Parameters::kBits`. -/
def viewCouldWrite (ty : IntTy) (bvt w : Nat) (v : Int) : Bool :=
  let asB := toBitViewValue ty bvt v
  decide (v = wrap ty asB) && (decide (w = bvt) || decide (asB < pow2 w))

/-- The bits `TryToWrite` stores: the low `w` bits of `ToBitViewValue(value)`. -/
def viewWriteBits (ty : IntTy) (bvt w : Nat) (v : Int) : Nat := (toBitViewValue ty bvt v % pow2 w).toNat

/-- `ReadEnumViewFromTextStream` (`runtime/cpp/emboss_text_util.h`) on a *numeric* token with
value `n`: a token starting with a digit is decoded into `uint64_t` (fails from `2^64`), one
starting with `-` into `int64_t` (fails below `-2^63`); the result is `static_cast` to the enum
type and handed to `TryToWrite`.  `none` = `UpdateFromText` returns false; `some bits` = the
field's new raw bits. -/
def viewReadTextNumber (ty : IntTy) (bvt w : Nat) (n : Int) : Option Nat :=
  if (if 0 ≤ n then decide (n < pow2 64) else decide (-(pow2 63) ≤ n)) then
    let v := wrap ty n
    if viewCouldWrite ty bvt w v then some (viewWriteBits ty bvt w v) else none
  else none

end Emboss.Enum
