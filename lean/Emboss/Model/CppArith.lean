/-
Arithmetic half of C04: how the generated C++ evaluates an expression.

`header_generator._render_expression`: a node whose type is constant is emitted as a
literal of type `_cpp_integer_type_for_range(v, v)`; otherwise
`_render_builtin_operation` picks `IntermediateT =
_cpp_integer_type_for_range(min over result+args, max over result+args)`,
`emboss_arithmetic.h::MaybeDo` casts every known operand to `IntermediateT`, computes
in that fixed-width type and casts to `ResultT = _cpp_integer_type_for_range(result)`.
`Choice` does not compute in `IntermediateT` but `static_assert`s that it equals
`ResultT`.  All operands are evaluated eagerly.

Outcomes other than `ok`: `overflow` (a value does not fit the type it is cast to or
computed in: signed overflow / value-changing conversion), `notype`
(`_cpp_integer_type_for_range` returned None), `staticAssert` (the Choice
static_assert fails: the header does not compile), `stuck` (ill-typed, or the
annotation is not computable / not finite).
-/
import Emboss.Model.Bounds
namespace Emboss.Bounds

inductive CRes where
  | ok (v : CVal)
  | overflow
  | notype
  | staticAssert
  | stuck
  deriving DecidableEq, Repr, Inhabited

def fitsT (t : CType) (v : Int) : Bool := t.lo ≤ v && v ≤ t.hi

def rangeOf (a : AVal) : Option (Int × Int) :=
  match a.min, a.max with
  | .fin lo, .fin hi => some (lo, hi)
  | _, _ => none

/-- finite ranges of the integer-typed clauses; `none` when a bound is infinite
    (`int("infinity")` raises in the back end) -/
def intRanges : List AType → Option (List (Int × Int))
  | [] => some []
  | .int a :: r =>
    match rangeOf a, intRanges r with
    | some p, some l => some (p :: l)
    | _, _ => none
  | _ :: r => intRanges r

def hullOf : List (Int × Int) → Option (Int × Int)
  | [] => none
  | p :: r =>
    match hullOf r with
    | none => some p
    | some q => some (if p.1 ≤ q.1 then p.1 else q.1, if p.2 ≤ q.2 then q.2 else p.2)

/-- `static_cast<IntermediateT>(arg)` keeps the value -/
def castOk (t : CType) : CVal → Bool
  | .int n => fitsT t n
  | _ => true

def resultType (ty : AType) : Option (Option CType) :=
  match ty with
  | .int a => match rangeOf a with
    | some (lo, hi) => some (cppTypeForRange lo hi)
    | none => none
  | _ => some none

/-- literal for a constant-typed node -/
def cppLiteral (ty : AType) : CRes :=
  match ty with
  | .int a =>
    match a.mv with
    | .fin v => match cppTypeForRange v v with | some _ => .ok (.int v) | none => .notype
    | _ => .stuck
  | .bool (some b) => .ok (.bool b)
  | .enum (some v) => .ok (.enum v)
  | _ => .stuck

/-- cast an operation's exact result `v` to `ResultT` -/
def castResult (ty : AType) (v : CVal) : CRes :=
  match ty, v with
  | .int a, .int r =>
    match rangeOf a with
    | none => .stuck
    | some (lo, hi) =>
      match cppTypeForRange lo hi with
      | none => .notype
      | some rt => if fitsT rt r then .ok (.int r) else .overflow
  | .bool _, .bool b => .ok (.bool b)
  | .enum _, .enum e => .ok (.enum e)
  | _, _ => .stuck

/-- `MaybeDo<IntermediateT, ResultT, Op, ArgTs…>` for an operation with exact result
    `res` (`none` = ill-typed) on operand values `vs`; `tys` = result type :: arg types -/
def cppOp (tys : List AType) (vs : List CVal) (res : Option CVal) : CRes :=
  match tys with
  | [] => .stuck
  | ty :: _ =>
    match intRanges tys with
    | none => .stuck
    | some rs =>
      match hullOf rs with
      | none => (match res with | some v => castResult ty v | none => .stuck)
      | some (lo, hi) =>
        match cppTypeForRange lo hi with
        | none => .notype
        | some it =>
          if !(vs.all (castOk it)) then .overflow
          else match res with
            | none => .stuck
            | some v => if !(castOk it v) then .overflow else castResult ty v

/-- `Choice<IntermediateT, ResultT, bool, TrueT, FalseT>` -/
def cppChoice (tys : List AType) (picked : CVal) : CRes :=
  match tys with
  | [] => .stuck
  | ty :: _ =>
    match intRanges tys with
    | none => .stuck
    | some rs =>
      match hullOf rs with
      | none => castResult ty picked
      | some (lo, hi) =>
        match cppTypeForRange lo hi, resultType ty with
        | none, _ => .notype
        | _, none => .stuck
        | some _, some none => .staticAssert  -- integer IntermediateT, non-integer ResultT
        | some it, some (some rt) => if it ≠ rt then .staticAssert else castResult ty picked

def maxVals (vs : List CVal) : Option CVal :=
  match cvInts (vs.map .val) with
  | some l => (maxInts l).map .int
  | none => none

/-- a node whose type is constant is a literal, anything else is computed -/
def withType (oty : Option AType) (k : AType → CRes) : CRes :=
  match oty with
  | none => .stuck
  | some ty => if isConstType ty then cppLiteral ty else k ty

def okVals : List CRes → Option (List CVal)
  | [] => some []
  | .ok v :: r => (okVals r).map (v :: ·)
  | _ :: _ => none

def firstBad : List CRes → CRes
  | [] => .stuck
  | .ok _ :: r => firstBad r
  | x :: _ => x

def tysOf : List (Option AType) → Option (List AType)
  | [] => some []
  | some t :: r => (tysOf r).map (t :: ·)
  | none :: _ => none

mutual
def cppEval (ρ : Env) : Expr → CRes
  | .const v => cppLiteral (.int (constRange v))
  | .bconst b => .ok (.bool b)
  | .econst v => .ok (.enum v)
  | .ileaf id k size => withType (abs (.ileaf id k size)) fun _ => .ok (.int (ρ.i id))
  | .ssize id => .ok (.int (ρ.i id))
  | .given id a => withType (some (.int a)) fun _ => .ok (.int (ρ.i id))
  | .bleaf id => .ok (.bool (ρ.b id))
  | .eleaf id => .ok (.enum (ρ.e id))
  | .bin op l r =>
    withType (abs (.bin op l r)) fun ty =>
      match cppEval ρ l, cppEval ρ r, abs l, abs r with
      | .ok vl, .ok vr, some tl, some tr => cppOp [ty, tl, tr] [vl, vr] (applyBin op vl vr)
      | .ok _, .ok _, _, _ => .stuck
      | .ok _, bad, _, _ => bad
      | bad, _, _, _ => bad
  | .choice c t f =>
    withType (abs (.choice c t f)) fun ty =>
      match cppEval ρ c, cppEval ρ t, cppEval ρ f, abs c, abs t, abs f with
      | .ok (.bool b), .ok vt, .ok vf, some tc, some tt, some tf =>
        cppChoice [ty, tc, tt, tf] (if b then vt else vf)
      | .ok _, .ok _, .ok _, _, _, _ => .stuck
      | .ok _, .ok _, bad, _, _, _ => bad
      | .ok _, bad, _, _, _, _ => bad
      | bad, _, _, _, _, _ => bad
  | .max args =>
    withType (abs (.max args)) fun ty =>
      let rs := cppEvalList ρ args
      match okVals rs, absList args with
      | some vs, some tys => cppOp (ty :: tys) vs (maxVals vs)
      | some _, none => .stuck
      | none, _ => firstBad rs
  | .upper e => withType (abs (.upper e)) fun _ => .stuck
  | .lower e => withType (abs (.lower e)) fun _ => .stuck
  | .cref e => withType (abs e) fun _ => .stuck
  -- a reference to a virtual field: a literal when constant-typed, otherwise the field's own
  -- accessor, i.e. the C++ evaluation of its definition (whose root does the same test)
  | .vref e => cppEval ρ e
  -- `has_a()`: the C++ evaluation of the existence condition (rendered on its own, same test)
  | .present _ c => cppEval ρ c
def cppEvalList (ρ : Env) : List Expr → List CRes
  | [] => []
  | e :: es => cppEval ρ e :: cppEvalList ρ es
end

def nodeTypes (tys : List AType) : List (Option CType × Option CType) :=
  match tys with
  | [] => []
  | ty :: _ =>
    match intRanges tys with
    | none => []
    | some rs =>
      match hullOf rs with
      | none => []
      | some (lo, hi) =>
        [(cppTypeForRange lo hi, match resultType ty with | some r => r | none => none)]

mutual
/-- (IntermediateT, ResultT) of every run-time function node with integer clauses,
    preorder; `none` = some annotation is not computable -/
def opTypes : Expr → Option (List (Option CType × Option CType))
  | .bin op l r =>
    match abs (.bin op l r), abs l, abs r, opTypes l, opTypes r with
    | some ty, some tl, some tr, some a, some b =>
      if isConstType ty then some [] else some (nodeTypes [ty, tl, tr] ++ a ++ b)
    | _, _, _, _, _ => none
  | .choice c t f =>
    match abs (.choice c t f), abs c, abs t, abs f, opTypes c, opTypes t, opTypes f with
    | some ty, some tc, some tt, some tf, some a, some b, some d =>
      if isConstType ty then some [] else some (nodeTypes [ty, tc, tt, tf] ++ a ++ b ++ d)
    | _, _, _, _, _, _, _ => none
  | .max args =>
    match abs (.max args), absList args, opTypesList args with
    | some ty, some tys, some l =>
      if isConstType ty then some [] else some (nodeTypes (ty :: tys) ++ l)
    | _, _, _ => none
  | _ => some []
def opTypesList : List Expr → Option (List (Option CType × Option CType))
  | [] => some []
  | e :: es =>
    match opTypes e, opTypesList es with
    | some a, some b => some (a ++ b)
    | _, _ => none
end
/-! ## Template arguments of the generated calls (tie to the header text)

`_render_builtin_operation` emits `::emboss::support::<Op></**/IntermediateT, ResultT, ArgTs…>(…)`.
`ResultT`/`ArgTs` are `_cpp_basic_type_for_expression` of the node and of its operands,
`IntermediateT` is `_cpp_integer_type_for_range(hull of all integer clauses)` when there is an
integer clause, otherwise the enum type or `bool`. -/

/-- a C++ type as it appears among the template arguments (`noInt`: the generator printed
    `None` because `_cpp_integer_type_for_range` found no type) -/
inductive TName where
  | int (t : CType)
  | noInt
  | bool
  | enum
  deriving DecidableEq, Repr, Inhabited

def tnameOfRange (lo hi : Int) : TName :=
  match cppTypeForRange lo hi with
  | some t => .int t
  | none => .noInt

/-- `_cpp_basic_type_for_expression`; `none` = `int("infinity")` raises -/
def argTName : AType → Option TName
  | .int a =>
    match rangeOf a with
    | some (lo, hi) => some (tnameOfRange lo hi)
    | none => none
  | .bool _ => some .bool
  | .enum _ => some .enum

def argTNames : List AType → Option (List TName)
  | [] => some []
  | t :: r =>
    match argTName t, argTNames r with
    | some a, some l => some (a :: l)
    | _, _ => none

def isEnumT : AType → Bool
  | .enum _ => true
  | _ => false

/-- `(IntermediateT, ResultT :: ArgTs)` for a node with clause types `tys` = result :: operands;
    `none` = the generator raises (infinite bound, or integers mixed with enums: the `assert`s) -/
def nodeSig (tys : List AType) : Option (TName × List TName) :=
  match intRanges tys, argTNames tys with
  | some rs, some names =>
    match hullOf rs with
    | some (lo, hi) => if tys.any isEnumT then none else some (tnameOfRange lo hi, names)
    | none => some (if tys.any isEnumT then .enum else .bool, names)
  | _, _ => none

inductive OpKind where
  | bin (op : BinOp)
  | choice
  | max
  deriving DecidableEq, Repr, Inhabited

mutual
/-- the calls the generator emits for an expression, preorder (all run-time function nodes,
    also the purely boolean / enum ones); `none` = an annotation is not computable or the
    generator raises.  `$upper_bound`/`$lower_bound`, references and `$present` emit no call. -/
def opSigs : Expr → Option (List (OpKind × TName × List TName))
  | .bin op l r =>
    match abs (.bin op l r), abs l, abs r, opSigs l, opSigs r with
    | some ty, some tl, some tr, some a, some b =>
      if isConstType ty then some []
      else match nodeSig [ty, tl, tr] with
        | some (it, ns) => some ((.bin op, it, ns) :: (a ++ b))
        | none => none
    | _, _, _, _, _ => none
  | .choice c t f =>
    match abs (.choice c t f), abs c, abs t, abs f, opSigs c, opSigs t, opSigs f with
    | some ty, some tc, some tt, some tf, some a, some b, some d =>
      if isConstType ty then some []
      else match nodeSig [ty, tc, tt, tf] with
        | some (it, ns) => some ((.choice, it, ns) :: (a ++ b ++ d))
        | none => none
    | _, _, _, _, _, _, _ => none
  | .max args =>
    match abs (.max args), absList args, opSigsList args with
    | some ty, some tys, some l =>
      if isConstType ty then some []
      else match nodeSig (ty :: tys) with
        | some (it, ns) => some ((.max, it, ns) :: l)
        | none => none
    | _, _, _ => none
  | _ => some []
def opSigsList : List Expr → Option (List (OpKind × TName × List TName))
  | [] => some []
  | e :: es =>
    match opSigs e, opSigsList es with
    | some a, some b => some (a ++ b)
    | _, _ => none
end
end Emboss.Bounds
