/-
C18 — impl model of the IR (de)serialisation layer of emboss:

* `compiler/util/ir_data_fields.py`   field specs (container NONE|OPTIONAL|LIST, data type, oneof group),
                                      `OneOfField` setter semantics, `list_field`/`str_field` defaults
* `compiler/util/ir_data.py`          `Message` (dataclass `__eq__`, `__post_init__`, `has_field`)
* `compiler/util/ir_data_utils.py`    `IrDataSerializer.to_dict(exclude_none=True)` / `_from_dict`
* `compiler/util/parser_types.py`     `SourcePosition`/`SourceLocation` `__new__` asserts, `__str__`, `from_str`
* Python `json.dumps` default text form (`Dv.render`; trusted, pinned byte-for-byte by the tie)

The model is *generic over a schema* (`Schema`): the concrete IR schema is regenerated
from `ir_data` on every run (`Emboss/Generated/IrSchema.lean`).

A message value is positional: `Val.msg cls [v₀, …]`, one entry per field spec of `cls`
in `field_specs` order; `Val.none` is Python `None` (unset).  Oneof groups: the real
object stores one `(which, value)` pair per group, so at most one member is non-`None`
(`oneofOk`); the constructor semantics (a later member given a value wins) is `construct`.

Outside the well-typed domain (value kind ≠ spec kind, where the Python code would raise
or produce junk such as `str(list)`), the model answers `none` (= "raises / out of model").
Python is lenient in places where the model is strict (`str(5)`, `bool("x")`,
`int(" 1_0 ")` in `from_str`); the tie only requires agreement where the model answers `some`.
-/
namespace Emboss.Json

/-! ## Schema -/

inductive DType where
  | str | int | bool
  | enum (name : String)
  | loc
  | msg (cls : String)
  | other (name : String)
deriving DecidableEq, Repr, Inhabited

inductive Container where
  | none | optional | list
deriving DecidableEq, Repr, Inhabited

/-- What the dataclass field defaults to when the constructor gets no argument. -/
inductive Default where
  | none                -- `= None`, or a oneof field (its `OneOfField` default acts as `None`)
  | str (s : String)    -- `str_field()` ⇒ `""`
  | emptyList           -- `list_field(T)`
  | required            -- no default: the constructor raises `TypeError`
  | other (what : String)
deriving DecidableEq, Repr, Inhabited

structure FieldSpec where
  name : String
  dtype : DType
  container : Container
  oneof : Option String
  default : Default
deriving DecidableEq, Repr, Inhabited

structure ClassSpec where
  name : String
  fields : List FieldSpec
deriving Repr, Inhabited

structure EnumSpec where
  name : String
  members : List (String × Int)
  /-- `_from_dict` routes this type through `_enum_type_converter` (accepts member names). -/
  byName : Bool
deriving Repr, Inhabited

structure Schema where
  classes : List ClassSpec
  enums : List EnumSpec
deriving Repr, Inhabited

def Schema.findClass (S : Schema) (c : String) : Option ClassSpec :=
  S.classes.find? (fun cs => cs.name == c)

def Schema.findEnum (S : Schema) (e : String) : Option EnumSpec :=
  S.enums.find? (fun es => es.name == e)

def findField (fields : List FieldSpec) (k : String) : Option FieldSpec :=
  fields.find? (fun f => f.name == k)

/-! ## Source positions / locations (`parser_types.py`) -/

structure Pos where
  line : Nat
  column : Nat
deriving DecidableEq, Repr, Inhabited

structure Loc where
  start : Pos
  stop : Pos            -- `end`
  disjoint : Bool       -- `is_disjoint_from_parent`
  synthetic : Bool      -- `is_synthetic`
deriving DecidableEq, Repr, Inhabited

/-- `SourcePosition.__new__` asserts: both zero or both non-zero (non-negativity is `Nat`). -/
def Pos.ok (p : Pos) : Bool :=
  (p.line == 0 && p.column == 0) || (p.line != 0 && p.column != 0)

/-- `SourcePosition.__bool__`. -/
def Pos.truthy (p : Pos) : Bool := p.line != 0

/-- namedtuple `<=`: lexicographic. -/
def Pos.le (a b : Pos) : Bool :=
  a.line < b.line || (a.line == b.line && a.column ≤ b.column)

/-- `SourceLocation.__new__` asserts (plus those of its two positions). -/
def Loc.ok (l : Loc) : Bool :=
  l.start.ok && l.stop.ok && l.start.le l.stop && (l.start.truthy == l.stop.truthy)

def mkPos (line column : Nat) : Option Pos :=
  let p : Pos := ⟨line, column⟩
  if p.ok then some p else none

def mkLoc (s e : Pos) (dis syn : Bool) : Option Loc :=
  let l : Loc := ⟨s, e, dis, syn⟩
  if l.ok then some l else none

/-- `str(int)` for a non-negative int. -/
def natChars (n : Nat) : List Char := Nat.toDigits 10 n

/-- Strict decimal parser (Python's `int(s.strip())` accepts more: sign, blanks, `_`). -/
def parseNat (cs : List Char) : Option Nat :=
  if !cs.isEmpty && cs.all Char.isDigit then some (Nat.ofDigitChars 10 cs 0) else none

def intChars (i : Int) : List Char :=
  match i with
  | .ofNat n => natChars n
  | .negSucc n => '-' :: natChars (n + 1)

def parseInt (cs : List Char) : Option Int :=
  match cs with
  | '-' :: rest => (parseNat rest).map (fun n => - (n : Int))
  | _ => (parseNat cs).map (fun n => (n : Int))

/-- `SourcePosition.__str__`. -/
def Pos.toChars (p : Pos) : List Char := natChars p.line ++ ':' :: natChars p.column

/-- `SourceLocation.__str__`. -/
def Loc.toChars (l : Loc) : List Char :=
  l.start.toChars ++ '-' :: l.stop.toChars
    ++ (if l.disjoint then ['^'] else []) ++ (if l.synthetic then ['*'] else [])

def Loc.toStr (l : Loc) : String := String.ofList l.toChars

/-- `str.split(sep)` for a one-character separator. -/
def splitOn (sep : Char) : List Char → List (List Char)
  | [] => [[]]
  | c :: cs =>
    if c = sep then [] :: splitOn sep cs
    else match splitOn sep cs with
      | [] => [[c]]
      | h :: t => (c :: h) :: t

/-- `SourcePosition.from_str`. -/
def Pos.fromChars (cs : List Char) : Option Pos :=
  match splitOn ':' cs with
  | [l, c] =>
    match parseNat l, parseNat c with
    | some l, some c => mkPos l c
    | _, _ => none
  | _ => none

/-- `SourceLocation.from_str` (any exception ⇒ `ValueError` ⇒ `none`). -/
def Loc.fromChars (cs : List Char) : Option Loc :=
  match cs.getLast? with
  | none => none                                   -- `value[-1]` on "" raises IndexError
  | some c1 =>
    let syn := c1 == '*'
    let cs1 := if syn then cs.dropLast else cs
    match cs1.getLast? with
    | none => none
    | some c2 =>
      let dis := c2 == '^'
      let cs2 := if dis then cs1.dropLast else cs1
      match splitOn '-' cs2 with
      | [a, b] =>
        match Pos.fromChars a, Pos.fromChars b with
        | some s, some e => mkLoc s e dis syn
        | _, _ => none
      | _ => none

def Loc.fromStr (s : String) : Option Loc := Loc.fromChars s.toList

/-! ## Message values and dict values -/

/-- A Python-side value.  `msg` is positional over the class's field specs. -/
inductive Val where
  | none
  | str (s : String)
  | int (i : Int)
  | bool (b : Bool)
  | enum (n : Int)
  | loc (l : Loc)
  | msg (cls : String) (fields : List Val)
  | list (items : List Val)
deriving Repr, Inhabited, BEq

/-- What `json.loads` yields / `json.dumps` takes. -/
inductive Dv where
  | null
  | str (s : String)
  | int (i : Int)
  | bool (b : Bool)
  | list (xs : List Dv)
  | dict (kvs : List (String × Dv))
deriving Repr, Inhabited, BEq

def Val.isNone : Val → Bool
  | .none => true
  | _ => false

def Dv.isNull : Dv → Bool
  | .null => true
  | _ => false

def Dv.isList : Dv → Bool
  | .list _ => true
  | _ => false

/-- Kind agreement between a single (non-`None`, non-list) value and the spec's data type:
where it fails the Python code raises (`_to_dict` on a non-dataclass, `json.dumps` on a
dataclass) or emits junk; the model answers `none` there. -/
def kindOk (t : DType) : Val → Bool
  | .str _ => t == .str
  | .int _ => t == .int
  | .bool _ => t == .bool
  | .enum _ => match t with
    | .enum _ => true
    | _ => false
  | .loc _ => t == .loc
  | .msg _ _ => match t with
    | .msg _ => true
    | _ => false
  | .none => false
  | .list _ => false

/-- Element types for which a LIST field survives `to_dict`/`_from_dict`: `str(list)` is
emitted for a list of locations, and `_enum_type_converter` is applied to the *list* for
the two hard-wired enum types. -/
def listElemOk : DType → Bool
  | .str | .int | .bool | .msg _ => true
  | _ => false

/-! ## `IrDataSerializer.to_dict(exclude_none=True)` -/

mutual
/-- One non-`None`, non-list value. -/
def encVal (S : Schema) : Val → Option Dv
  | .str s => some (.str s)
  | .int i => some (.int i)
  | .bool b => some (.bool b)
  | .enum n => some (.int n)                       -- `int`-enum: serialised as its number
  | .loc l => some (.str l.toStr)                  -- `str(value)`
  | .msg c vs =>
    match S.findClass c with
    | some cs => (encFields S cs.fields vs).map Dv.dict
    | none => none
  | .none => none
  | .list _ => none
/-- The loop of `_to_dict` over `fields_and_values(ir, non_empty)`. -/
def encFields (S : Schema) : List FieldSpec → List Val → Option (List (String × Dv))
  | [], [] => some []
  | f :: fs, v :: vs =>
    match v with
    | .none => encFields S fs vs                   -- filter: `v is not None`
    | .list xs =>
      if xs.isEmpty then encFields S fs vs         -- filter: `not isinstance(v, list) or len(v)`
      else if f.container == .list && listElemOk f.dtype && xs.all (kindOk f.dtype) then
        match encList S xs, encFields S fs vs with
        | some ds, some rest => some ((f.name, .list ds) :: rest)
        | _, _ => none
      else none
    | v =>
      if f.container != .list && kindOk f.dtype v then
        match encVal S v, encFields S fs vs with
        | some d, some rest => some ((f.name, d) :: rest)
        | _, _ => none
      else none
  | _, _ => none
def encList (S : Schema) : List Val → Option (List Dv)
  | [] => some []
  | v :: vs =>
    match encVal S v, encList S vs with
    | some d, some ds => some (d :: ds)
    | _, _ => none
end

/-- `IrDataSerializer(m).to_dict(exclude_none=True)`. -/
def toDict (S : Schema) (m : Val) : Option Dv :=
  match m with
  | .msg _ _ => encVal S m
  | _ => none

/-! ## `IrDataSerializer._from_dict` and the dataclass constructor -/

def enumMember (S : Schema) (e : String) (n : Int) : Bool :=
  match S.findEnum e with
  | some es => es.members.any (fun m => m.2 == n)
  | none => false

/-- `getattr(enum_cls, name)` for the types routed through `_enum_type_converter`. -/
def enumByName (S : Schema) (e : String) (s : String) : Option Int :=
  match S.findEnum e with
  | some es => if es.byName then (es.members.find? (fun m => m.1 == s)).map (·.2) else none
  | none => none

/-- Is a later member of oneof group `g` given a (non-`None`) value? -/
def laterSet (g : String) : List FieldSpec → List Val → Bool
  | f :: fs, v :: vs => (f.oneof == some g && !v.isNone) || laterSet g fs vs
  | _, _ => false

/-- Generated `__init__` = one `setattr` per field in order; `OneOfField.__set__`: a
non-`None` value takes the group, `None`/the default only clears its own choice. -/
def construct : List FieldSpec → List Val → List Val
  | f :: fs, v :: vs =>
    (match f.oneof with
      | some g => if laterSet g fs vs then Val.none else v
      | none => v) :: construct fs vs
  | _, _ => []

/-- The states a real object can be in: at most one member of each oneof group is set. -/
def oneofOk : List FieldSpec → List Val → Bool
  | f :: fs, v :: vs =>
    (match f.oneof with
      | some g => v.isNone || !laterSet g fs vs
      | none => true) && oneofOk fs vs
  | _, _ => true

def defaultOf (f : FieldSpec) : Option Val :=
  match f.default with
  | .none => some .none
  | .str s => some (.str s)
  | .emptyList => some (.list [])
  | .required => none
  | .other _ => none

def lookup (k : String) : List (String × Val) → Option Val
  | [] => none
  | (k', v) :: rest => if k' == k then some v else lookup k rest

/-- `data_cls(**class_fields)`: keyword or default for every field, then `construct`. -/
def buildArgs (dec : List (String × Val)) : List FieldSpec → Option (List Val)
  | [] => some []
  | f :: fs =>
    match (match lookup f.name dec with
           | some v => some v
           | none => defaultOf f), buildArgs dec fs with
    | some v, some vs => some (v :: vs)
    | _, _ => none

def finish (c : String) (fields : List FieldSpec) (dec : List (String × Val)) : Option Val :=
  (buildArgs dec fields).map (fun args => Val.msg c (construct fields args))

mutual
/-- One non-null, non-list JSON value decoded at data type `t`. -/
def decVal (S : Schema) (t : DType) : Dv → Option Val
  | .str s =>
    match t with
    | .str => some (.str s)
    | .loc => (Loc.fromStr s).map Val.loc          -- `SourceLocation.from_str`
    | .enum e => (enumByName S e s).map Val.enum   -- `getattr(enum_cls, val)`
    | _ => none
  | .int i =>
    match t with
    | .int => some (.int i)
    | .enum e => if enumMember S e i then some (.enum i) else none   -- `enum_cls(val)`
    | _ => none
  | .bool b =>
    match t with
    | .bool => some (.bool b)
    | _ => none
  | .dict kvs =>
    match t with
    | .msg c =>
      match S.findClass c with
      | some cs =>
        match decKvs S cs.fields kvs with
        | some dec => finish c cs.fields dec
        | none => none
      | none => none
    | _ => none
  | .null => none
  | .list _ => none
/-- The loop of `_from_dict`, driven by the keys present (unknown keys and `null`s are
skipped: `data.get(name) is not None`). -/
def decKvs (S : Schema) (fields : List FieldSpec) : List (String × Dv) → Option (List (String × Val))
  | [] => some []
  | (k, d) :: rest =>
    match findField fields k with
    | none => decKvs S fields rest
    | some f =>
      match d with
      | .null => decKvs S fields rest
      | .list ds =>
        if f.container == .list && listElemOk f.dtype then
          match decList S f.dtype ds, decKvs S fields rest with
          | some vs, some r => some ((k, .list vs) :: r)
          | _, _ => none
        else none
      | d =>
        if f.container != .list then
          match decVal S f.dtype d, decKvs S fields rest with
          | some v, some r => some ((k, v) :: r)
          | _, _ => none
        else none
def decList (S : Schema) (t : DType) : List Dv → Option (List Val)
  | [] => some []
  | d :: ds =>
    match decVal S t d, decList S t ds with
    | some v, some vs => some (v :: vs)
    | _, _ => none
end

/-- `IrDataSerializer.from_dict(cls, d)`. -/
def fromDict (S : Schema) (c : String) (d : Dv) : Option Val := decVal S (.msg c) d

/-! ## Well-formed messages (what `Message.__setattr__`'s type check and the oneof storage
guarantee for every object the front end can build) -/

mutual
def wfVal (S : Schema) (t : DType) : Val → Bool
  | .str _ => t == .str
  | .int _ => t == .int
  | .bool _ => t == .bool
  | .enum n =>
    match t with
    | .enum e => enumMember S e n
    | _ => false
  | .loc l => t == .loc && l.ok
  | .msg c vs =>
    t == .msg c &&
      match S.findClass c with
      | some cs => wfFields S cs.fields vs && oneofOk cs.fields vs
      | none => false
  | .none => false
  | .list _ => false
def wfFields (S : Schema) : List FieldSpec → List Val → Bool
  | [], [] => true
  | f :: fs, v :: vs =>
    (match v with
      | .none => f.container == .optional
      | .list xs => f.container == .list && wfList S f.dtype xs
      | v => f.container != .list && wfVal S f.dtype v) && wfFields S fs vs
  | _, _ => false
def wfList (S : Schema) (t : DType) : List Val → Bool
  | [] => true
  | v :: vs => wfVal S t v && wfList S t vs
end

/-- `m` is a well-formed instance of class `c`. -/
def WfMsg (S : Schema) (c : String) (m : Val) : Prop := wfVal S (.msg c) m = true

instance (S : Schema) (c : String) (m : Val) : Decidable (WfMsg S c m) :=
  inferInstanceAs (Decidable (_ = true))

/-! ## Schema conditions under which the round trip holds -/

def namesDistinct : List FieldSpec → Bool
  | [] => true
  | f :: fs => !(fs.any (fun g => g.name == f.name)) && namesDistinct fs

def fieldOk (f : FieldSpec) : Bool :=
  (match f.container with
    | .optional => f.default == .none                          -- unset survives as unset
    | .list => f.default == .emptyList && listElemOk f.dtype   -- dropped empty list comes back empty
    | .none => true)
  && (match f.oneof with
    | some _ => f.container == .optional                       -- `OneOfField.__get__` yields `None` when not chosen
    | none => true)
  && (match f.dtype with
    | .other _ => false                                        -- a type this model knows nothing about
    | _ => true)

/-- No field collides with the proxies `OneOfField` plants on the class. -/
def noProxyClash (fields : List FieldSpec) : Bool :=
  fields.all fun f =>
    match f.oneof with
    | some g => fields.all (fun h => h.name != "which_" ++ g && h.name != "_value_" ++ g)
    | none => true

def classOk (cs : ClassSpec) : Bool :=
  namesDistinct cs.fields && cs.fields.all fieldOk && noProxyClash cs.fields

def schemaOk (S : Schema) : Bool := S.classes.all classOk

def SchemaOk (S : Schema) : Prop := schemaOk S = true

/-- The constructor default of a field is a value of the field's own type (needed only for
"whatever `_from_dict` builds is well-formed", not for the round trip). -/
def defaultFits (f : FieldSpec) : Bool :=
  match f.container, f.default with
  | .none, .str _ => f.dtype == .str
  | .none, .required => true
  | .none, _ => false
  | _, _ => true

def schemaOkStrict (S : Schema) : Bool :=
  schemaOk S && S.classes.all (fun cs => cs.fields.all defaultFits)

def SchemaOkStrict (S : Schema) : Prop := schemaOkStrict S = true

instance (S : Schema) : Decidable (SchemaOkStrict S) := inferInstanceAs (Decidable (_ = true))

instance (S : Schema) : Decidable (SchemaOk S) := inferInstanceAs (Decidable (_ = true))

/-! ## `Message.has_field` -/

def hasFieldAux (name : String) : List FieldSpec → List Val → Bool
  | f :: fs, v :: vs => if f.name == name then !v.isNone else hasFieldAux name fs vs
  | _, _ => false

/-- `m.has_field(name)` = `getattr(m, name, None) is not None`. -/
def hasField (S : Schema) (m : Val) (name : String) : Bool :=
  match m with
  | .msg c vs =>
    match S.findClass c with
    | some cs => hasFieldAux name cs.fields vs
    | none => false
  | _ => false

/-! ## `json.dumps` default text form (ensure_ascii, separators `", "` / `": "`) — trusted,
pinned byte-for-byte against the real `to_json` by the correspondence run. -/

def hexDigit (n : Nat) : Char :=
  if n < 10 then Char.ofNat (48 + n) else Char.ofNat (87 + n)

def u4 (n : Nat) : List Char :=
  ['\\', 'u', hexDigit (n / 4096 % 16), hexDigit (n / 256 % 16), hexDigit (n / 16 % 16), hexDigit (n % 16)]

def escChar (c : Char) : List Char :=
  if c = '"' then ['\\', '"']
  else if c = '\\' then ['\\', '\\']
  else if c = '\n' then ['\\', 'n']
  else if c = '\r' then ['\\', 'r']
  else if c = '\t' then ['\\', 't']
  else if c.toNat = 8 then ['\\', 'b']
  else if c.toNat = 12 then ['\\', 'f']
  else if 32 ≤ c.toNat && c.toNat ≤ 126 then [c]
  else if c.toNat < 65536 then u4 c.toNat
  else
    let n := c.toNat - 65536
    u4 (55296 + n / 1024 % 1024) ++ u4 (56320 + n % 1024)

def renderStr (s : String) : List Char :=
  '"' :: (s.toList.flatMap escChar ++ ['"'])

mutual
def Dv.renderChars : Dv → List Char
  | .null => "null".toList
  | .str s => renderStr s
  | .int i => intChars i
  | .bool b => if b then "true".toList else "false".toList
  | .list xs => '[' :: (renderList xs ++ [']'])
  | .dict kvs => '{' :: (renderKvs kvs ++ ['}'])
def renderList : List Dv → List Char
  | [] => []
  | [d] => d.renderChars
  | d :: ds => d.renderChars ++ ',' :: ' ' :: renderList ds
def renderKvs : List (String × Dv) → List Char
  | [] => []
  | [(k, d)] => renderStr k ++ ':' :: ' ' :: d.renderChars
  | (k, d) :: rest => renderStr k ++ ':' :: ' ' :: d.renderChars ++ ',' :: ' ' :: renderKvs rest
end

def Dv.render (d : Dv) : String := String.ofList d.renderChars

/-- `IrDataSerializer(m).to_json()`. -/
def toJson (S : Schema) (m : Val) : Option String := (toDict S m).map Dv.render

end Emboss.Json
