import Emboss.Model.Bounds
/-
Impl model for C13 — expression typing (compiler/front_end/type_check.py,
compiler/util/attribute_util.py, the attribute-type table of attribute_checker.py).

The model works on *resolved* expressions: name resolution is C12's business, so a
reference carries what `ir_util.find_object` would return for it (the expression type
of a parameter / physical field, or — for virtual fields — the referred
`read_transform` itself, inlined together with the module file it lives in; dependency
cycles are rejected by an earlier pass, so the unfolding is a finite tree).  Everything is
as *coded* (tree after the round-1 `fix:` commits: dcbfea8, d73ff7c, 920a074, 8dfcbea,
d3c862a, e5f0b26, e20b103, f3b27d5, 3c25ce4, 74b10f8, d07ebca), quirks included.
-/
namespace Emboss.Types

/-- `reader(expr).type.which_type`.  `none` = `which_type is None`: either `expr.type` is
missing altogether (the checker returned before annotating: failed comparison / `?:`,
static reference to something that has no type, `$next`) or it is an empty
`ExpressionType` (such a type copied through a reference).  Since dcbfea8 every read in
`type_check.py` goes through `ir_data_utils.reader`, which does not tell the two apart;
the three places outside that still read `.type.which_type` directly are modelled as
raising on `none` (see `Crash`). -/
inductive Ty
  | int | bool | enum (n : Nat) | opaque | none
  deriving DecidableEq, Repr

/-- What a declaration can give a parameter or physical field
(`unbounded_expression_type_for_physical_type`): never "no type".  Enumerations are
numbered by the harness per *(module file, object path)* — `hashable_form_of_reference`. -/
inductive DTy
  | int | bool | enum (n : Nat) | opaque
  deriving DecidableEq, Repr

def DTy.toTy : DTy → Ty
  | .int => .int
  | .bool => .bool
  | .enum n => .enum n
  | .opaque => .opaque

/-- integer, boolean or enumeration: the types a value-level operator can handle. -/
def Ty.isValue : Ty → Bool
  | .int | .bool | .enum _ => true
  | _ => false

/-- A source location: identifier (the harness keeps the table) + `is_synthetic`. -/
structure Loc where
  id : Nat
  syn : Bool
  deriving DecidableEq, Repr

/-- A module file (`source_file_name` / `canonical_name.module_file`), numbered by the harness. -/
abbrev FileId := Nat

inductive BinOp
  | add | sub | mul | and | or | eq | ne | lt | le | gt | ge
  deriving DecidableEq, Repr

inductive Fn
  | max | present | upper | lower
  deriving DecidableEq, Repr

/-- `builtin_reference`: the two typed builtins, and anything else (`$next` surviving
`synthetics.desugar`, i.e. outside a field location). -/
inductive Builtin
  | isStaticallySized | staticSizeInBits | other
  deriving DecidableEq, Repr

/-- Resolved expressions (`ir_data.Expression` after `resolve_field_references`). -/
inductive Expr
  | num (l : Loc)                          -- constant
  | boolc (l : Loc)                        -- boolean_constant
  | enumv (l : Loc) (n : Nat)              -- constant_reference → EnumValue of enum n
  | cphys (l : Loc) (df : FileId) (dl : Loc) -- constant_reference → physical field (defined in df at dl)
  | cvirt (l : Loc) (df : FileId) (d : Expr) -- constant_reference → virtual field of module df with read_transform d
  | cother (l : Loc)                       -- constant_reference → anything else (a runtime parameter)
  | lparam (l : Loc) (t : DTy)             -- field_reference → runtime parameter of atomic physical type
  | lparamArr (l : Loc)                    -- field_reference → runtime parameter declared with an array type
  | lphys (l : Loc) (t : DTy)              -- field_reference → physical field (opaque for arrays/structs)
  | lvirt (l : Loc) (df : FileId) (d : Expr) -- field_reference → virtual field of module df with read_transform d
  | builtin (l : Loc) (b : Builtin)
  | bin (l : Loc) (op : BinOp) (a b : Expr)
  | choice (l : Loc) (c t f : Expr)
  | fn (l : Loc) (f : Fn) (args : List Expr)
  deriving Repr

def Expr.loc : Expr → Loc
  | .num l | .boolc l | .enumv l _ | .cphys l _ _ | .cvirt l _ _ | .cother l | .lparam l _
  | .lparamArr l | .lphys l _ | .lvirt l _ _ | .builtin l _ | .bin l _ _ _ | .choice l _ _ _
  | .fn l _ _ => l

/-- `_kind_check_field_reference`: a `field_reference` whose referent is a `Field` — a runtime
parameter is referred to in the same way but is not a field. -/
def Expr.isFieldRef : Expr → Bool
  | .lphys .. | .lvirt .. => true
  | _ => false

/-- Error classes (one per message template of the modelled code). -/
inductive Cls
  | mustInt (arg : Nat)      -- "<Left|Right argument|Argument n> of <operator|function> 'f' must be an integer."
  | mustBool (arg : Nat)     -- "... must be a boolean."
  | mustField (arg : Nat)    -- "... must be a field."
  | arity                    -- "Function 'f' requires exactly|at least|at most n argument(s)."
  | cmpArg (arg : Nat)       -- "<Left|Right> argument of operator 'op' must be an integer[, boolean,] or enum."
  | cmpSame                  -- "Both arguments of operator 'op' must have the same type."
  | chCond | chTrue | chSame -- the three `?:` messages
  | staticPhys               -- "Static references to physical fields are not allowed."
  | staticOther              -- "Static references must refer to enum values or virtual fields."
  | builtinCtx               -- "Keyword `$next` may not be used in this context."
  | posStart | posSize | posArray | posExist | posEnumValue
  | paramArray | paramKind | passArity | passKind (i : Nat)
  | attrBool | attrConstBool | attrInt | attrConst | attrStr | attrString
  deriving DecidableEq, Repr

/-- Where the Python still raises instead of reporting.  The first three read
`.type.which_type` without `reader`; they are reached only when `annotate_types` left an
expression / parameter untyped, i.e. after it reported an error (see `C13_total_partial`). -/
inductive Crash
  | paramTypeNone      -- type_check._type_check_parameter: None.which_type (array-typed parameter)
  | passedTypeNone     -- type_check._type_name_for_error_messages: None.which_type
  | attrTypeNone       -- attribute_util._is_boolean & co.: None.which_type
  | attrSignedNotLiteral -- ir_util.get_attribute: assert "Duplicate attribute" (via attribute_checker)
  deriving DecidableEq, Repr

/-- One error group: primary location, the `source_file` of the primary message, class, and
the (file, location) of its notes. -/
structure Err where
  l : Loc
  file : FileId
  cls : Cls
  notes : List (FileId × Loc)
  deriving DecidableEq, Repr

/-- `error.split_errors`: a group is hidden when any of its locations is synthetic. -/
def Err.hidden (e : Err) : Bool := e.l.syn || e.notes.any (·.2.syn)

structure Res where
  ty : Ty
  errs : List Err
  deriving Repr

def Res.pure (t : Ty) : Res := ⟨t, []⟩

structure ResList where
  tys : List Ty
  errs : List Err
  deriving Repr

def BinOp.isCmp : BinOp → Bool
  | .eq | .ne | .lt | .le | .gt | .ge => true
  | _ => false

def BinOp.isEquality : BinOp → Bool
  | .eq | .ne => true
  | _ => false

/-- argument type / result type of the monomorphic binary operators. -/
def BinOp.mono : BinOp → Ty
  | .and | .or => .bool
  | _ => .int

/-- `acceptable_types` of `_type_check_comparison_operator` — as coded, ordering accepts enums. -/
def cmpAcceptable (op : BinOp) (t : Ty) : Bool :=
  if op.isEquality then t.isValue
  else match t with
    | .int | .enum _ => true
    | _ => false

def err (f : FileId) (l : Loc) (c : Cls) : Err := ⟨l, f, c, []⟩

/-- checks of one argument of a monomorphic operator/function. -/
def argErr (f : FileId) (want : Ty) (i : Nat) (a : Expr) (t : Ty) : List Err :=
  if t = want then [] else [err f a.loc (if want = .bool then .mustBool i else .mustInt i)]

/-- per-argument checks for the n-ary functions: `zip(args, arg_names)` with one name per
argument (`"Argument {}".format(n) for n in range(len(args))`): every argument is checked. -/
def fnArgErrs (file : FileId) (f : Fn) : Nat → List Expr → List Ty → List Err
  | i, a :: as, t :: ts =>
    (match f with
     | .present => if a.isFieldRef then [] else [err file a.loc (.mustField i)]
     | _ => argErr file .int i a t) ++ fnArgErrs file f (i + 1) as ts
  | _, _, _ => []

def Fn.arityOk (f : Fn) (n : Nat) : Bool :=
  match f with
  | .max => 1 ≤ n
  | _ => n = 1

def Fn.result : Fn → Ty
  | .present => .bool
  | _ => .int

mutual
/-- `_type_check_expression` for an expression of module `file`: the annotated type and the
errors appended (each with the file name it is reported under). -/
def tc (file : FileId) : Expr → Res
  | .num _ => .pure .int
  | .boolc _ => .pure .bool
  | .enumv _ n => .pure (.enum n)
  | .cphys l df dl => ⟨.none, [⟨l, file, .staticPhys, [(df, dl)]⟩]⟩
  -- the referred definition is checked under *its* module's file name
  | .cvirt _ df d => tc df d
  | .cother l => ⟨.none, [err file l .staticOther]⟩
  | .lparam _ t => .pure t.toTy
  -- `_annotate_parameter_type` reports "Parameters cannot be arrays." at the declaration
  | .lparamArr _ => .pure .opaque
  | .lphys _ t => .pure t.toTy
  | .lvirt _ df d => tc df d
  | .builtin l b =>
    match b with
    | .isStaticallySized => .pure .bool
    | .staticSizeInBits => .pure .int
    | .other => ⟨.none, [err file l .builtinCtx]⟩
  | .bin l op a b =>
    let ra := tc file a
    let rb := tc file b
    let sub := ra.errs ++ rb.errs
    if op.isCmp then
      if !cmpAcceptable op ra.ty then ⟨.none, sub ++ [err file a.loc (.cmpArg 0)]⟩
      else if !cmpAcceptable op rb.ty then ⟨.none, sub ++ [err file b.loc (.cmpArg 1)]⟩
      else ⟨.bool, sub ++ (if ra.ty = rb.ty then [] else [err file l .cmpSame])⟩
    else
      ⟨op.mono, sub ++ argErr file op.mono 0 a ra.ty ++ argErr file op.mono 1 b rb.ty⟩
  | .choice l c t f =>
    let rc := tc file c
    let rt := tc file t
    let rf := tc file f
    let sub := rc.errs ++ rt.errs ++ rf.errs
    let e1 := if rc.ty = .bool then [] else [err file c.loc .chCond]
    if !rt.ty.isValue then ⟨.none, sub ++ e1 ++ [err file t.loc .chTrue]⟩
    else ⟨rt.ty, sub ++ e1 ++ (if rt.ty = rf.ty then [] else [err file l .chSame])⟩
  | .fn l f args =>
    let rs := tcList file args
    ⟨f.result,
     rs.errs ++ fnArgErrs file f 0 args rs.tys ++
       (if f.arityOk args.length then [] else [err file l .arity])⟩
/-- arguments left to right. -/
def tcList (file : FileId) : List Expr → ResList
  | [] => ⟨[], []⟩
  | e :: es =>
    let r := tc file e
    let rs := tcList file es
    ⟨r.ty :: rs.tys, r.errs ++ rs.errs⟩
end

mutual
/-- closed = mentions no parameter, physical field or builtin (`constant_value` gives `None`
for each of them), however deep and through references: the model's stand-in for
`ir_util.is_constant` / `type.boolean.has_field("value")` after `compute_constants`.  The two
agree except on values that the three-valued `&&`/`||`/`?:` folding or the bounds analysis
makes constant although they mention a field (`false && x == 1`, `$upper_bound(x)`, a static
reference to `let v = x * 0`); those are C05's and kept out of the correspondence. -/
def closed : Expr → Bool
  | .num _ | .boolc _ | .enumv _ _ => true
  | .builtin _ _ => false
  | .cphys .. | .cother _ | .lparam .. | .lparamArr _ | .lphys .. => false
  | .cvirt _ _ d | .lvirt _ _ d => closed d
  | .bin _ _ a b => closed a && closed b
  | .choice _ c t f => closed c && (closed t && closed f)
  | .fn _ _ args => closedList args
def closedList : List Expr → Bool
  | [] => true
  | e :: es => closed e && closedList es
end

/-! ## Module level: `annotate_types`, `check_types`, attribute value typing -/

/-- `RuntimeParameter.physical_type_alias`: an array type, or an atomic type whose
definition yields expression type `t`. -/
inductive PTy
  | array
  | atomic (t : DTy)
  deriving DecidableEq, Repr

structure Param where
  file : FileId
  l : Loc            -- physical_type_alias.source_location
  pty : PTy
  deriving Repr

/-- `RuntimeParameter.type` after `_annotate_parameter_type` (left unset for arrays). -/
def Param.ty (p : Param) : Ty :=
  match p.pty with
  | .array => .none
  | .atomic t => t.toTy

/-- An `AtomicType` use (in module `file`) with its passed runtime parameters; `expected`
are the `(type, source_location)` of the referenced definition's parameters, `defFile` /
`defLoc` where that definition is. -/
structure Passed where
  file : FileId
  l : Loc
  defFile : FileId
  defLoc : Loc
  expected : List (Ty × Loc)
  given : List Expr
  deriving Repr

inductive AKind
  | boolConst         -- is_signed, is_integer
  | bool              -- requires, static_requirements
  | intConst          -- addressable_unit_size, maximum_bits, fixed_size_in_bits
  | strList           -- byte_order, text_output
  | backEnds          -- expected_back_ends
  deriving DecidableEq, Repr

inductive AVal
  | str (valid : Bool)        -- string constant; `valid` = member of the attribute's value list / matches its pattern
  | expr (e : Expr)
  deriving Repr

structure Attr where
  file : FileId
  l : Loc            -- attr.value.source_location
  kind : AKind
  isSigned : Bool    -- the attribute is `is_signed` (for `attrLate`)
  val : AVal
  cst : Option Emboss.Bounds.Expr
                     -- the same value in C05's expression language (literal values, ranges of
                     -- the physical leaves, definitions of referenced virtual fields), when the
                     -- harness can supply it; `none`: constancy falls back to closedness
  deriving Repr

mutual
/-- 3ef2c18 on top of C05's model: since that commit `ir_util.constant_value` gives "no known
value" for a static reference to a virtual field whose type is not a single value (it used to
fail an assertion, which is what `Emboss.Bounds.cv` still says: `atypeConstCV … = .crash`).  Such
a reference then behaves exactly like a plain reference to the field (`vref`: unknown to
`constant_value`, same bounds), so it is rewritten into one; references to constant fields are
left alone.  (Redundant once C05's `atypeConstCV` says `.unknown` there.) -/
def normB : Emboss.Bounds.Expr → Emboss.Bounds.Expr
  | .cref e =>
    if Emboss.Bounds.atypeConstCV (Emboss.Bounds.abs (normB e)) = .crash then .vref (normB e)
    else .cref (normB e)
  | .vref e => .vref (normB e)
  | .bin op l r => .bin op (normB l) (normB r)
  | .choice c t f => .choice (normB c) (normB t) (normB f)
  | .max args => .max (normBList args)
  | .upper e => .upper (normB e)
  | .lower e => .lower (normB e)
  | .present a c => .present (normB a) (normB c)
  | e => e
def normBList : List Emboss.Bounds.Expr → List Emboss.Bounds.Expr
  | [] => []
  | e :: es => normB e :: normBList es
end

/-- `ir_util.is_constant(value)` (`constant_value(value) is not None`), by C05's model of
`ir_util.constant_value`: a known value — neither "unknown" nor an exception. -/
def constIntB (b : Emboss.Bounds.Expr) : Bool :=
  match Emboss.Bounds.cv b with
  | .val _ => true
  | _ => false

/-- `value.type.boolean.has_field("value")` once `expression_bounds.compute_constants` has run,
by C05's model of that pass. -/
def constBoolB (b : Emboss.Bounds.Expr) : Bool :=
  match Emboss.Bounds.abs b with
  | some (.bool (some _)) => true
  | _ => false

/-- Is the value `e` of attribute `a` constant as far as the validators can tell?  C05's verdict
when the value is available in C05's language (so `false && x == 1`, `$upper_bound(x)`, a static
reference to `let v = x * 0` count as constant, as they do in the compiler); closedness otherwise. -/
def Attr.constOk (a : Attr) (e : Expr) : Bool :=
  match a.cst with
  | none => closed e
  | some b => if a.kind = .boolConst then constBoolB (normB b) else constIntB (normB b)

/-- A located top-level expression: the module file it is written in and the expression. -/
abbrev FExpr := FileId × Expr

structure Module where
  exprs : List FExpr                -- every top-level Expression of the IR (traversal order)
  params : List Param
  locations : List (FileId × Expr × Expr)  -- FieldLocation start, size
  arrays : List FExpr               -- ArrayType.element_count
  conds : List FExpr                -- Field.existence_condition
  enumValues : List FExpr           -- EnumValue.value
  passed : List Passed
  attrs : List Attr
  deriving Repr

structure PassRes where
  errs : List Err
  crash : Option Crash
  deriving Repr

def orCrash (a b : Option Crash) : Option Crash :=
  match a with
  | some c => some c
  | none => b

def PassRes.app (a b : PassRes) : PassRes := ⟨a.errs ++ b.errs, orCrash a.crash b.crash⟩

def tcAll : List FExpr → List Err
  | [] => []
  | e :: es => (tc e.1 e.2).errs ++ tcAll es

/-- `annotate_types`: every expression, then `_annotate_parameter_type`.  Nothing in it raises. -/
def annotate (m : Module) : List Err :=
  tcAll m.exprs ++
    m.params.flatMap (fun p => if p.pty = .array then [err p.file p.l .paramArray] else [])

def wantTy (want : Ty) (c : Cls) (e : FExpr) : List Err :=
  if (tc e.1 e.2).ty = want then [] else [err e.1 e.2.loc c]

/-- `_type_check_enum_value`: integer, or (as coded, pinned by expression_bounds_test) an
expression of enum type such as `TEN = TEN2`. -/
def enumValueOk : Ty → Bool
  | .int | .enum _ => true
  | _ => false

/-- `_type_check_parameter`. -/
def paramOne (p : Param) : PassRes :=
  match p.ty with
  | .int | .enum _ => ⟨[], none⟩
  | .none => ⟨[], some .paramTypeNone⟩
  | _ => ⟨[err p.file p.l .paramKind], none⟩

def paramAll : List Param → PassRes
  | [] => ⟨[], none⟩
  | p :: ps => (paramOne p).app (paramAll ps)

/-- the loop of `_type_check_passed_parameters`: `_types_are_compatible` is type equality
(enums by module file + path); the message names both types. -/
def passedArgs (p : Passed) : Nat → List (Ty × Loc) → List Expr → PassRes
  | i, (t, pl) :: ts, g :: gs =>
    let rest := passedArgs p (i + 1) ts gs
    if !t.isValue then rest
    else
      let gt := (tc p.file g).ty
      if gt = t then rest
      else if gt = .none then ⟨[], some .passedTypeNone⟩
      else ⟨⟨g.loc, p.file, .passKind i, [(p.defFile, pl)]⟩ :: rest.errs, rest.crash⟩
  | _, _, _ => ⟨[], none⟩

def passedOne (p : Passed) : PassRes :=
  if p.expected.length ≠ p.given.length then
    ⟨[⟨p.l, p.file, .passArity, [(p.defFile, p.defLoc)]⟩], none⟩
  else passedArgs p 0 p.expected p.given

def passedAll : List Passed → PassRes
  | [] => ⟨[], none⟩
  | p :: ps => (passedOne p).app (passedAll ps)

/-- `check_types`, in the order of its six traversals. -/
def checkTypes (m : Module) : PassRes :=
  let e1 := m.locations.flatMap (fun p =>
    wantTy .int .posStart (p.1, p.2.1) ++ wantTy .int .posSize (p.1, p.2.2))
  -- since e20b103 only the length itself, not its sub-expressions
  let e2 := m.arrays.flatMap (wantTy .int .posArray)
  let e3 := m.conds.flatMap (wantTy .bool .posExist)
  let e4 := m.enumValues.flatMap (fun v =>
    if enumValueOk (tc v.1 v.2).ty then [] else [err v.1 v.2.loc .posEnumValue])
  ((PassRes.mk (e1 ++ e2 ++ e3 ++ e4) none).app (paramAll m.params)).app (passedAll m.passed)

/-- attribute value typing (`attribute_util` validators as wired up by `attribute_checker`). -/
def attrOne (a : Attr) : PassRes :=
  match a.kind, a.val with
  | .boolConst, .str _ => ⟨[err a.file a.l .attrConstBool], none⟩
  | .boolConst, .expr e =>
    if (tc a.file e).ty = .none then ⟨[], some .attrTypeNone⟩
    else if (tc a.file e).ty ≠ .bool || !a.constOk e then ⟨[err a.file a.l .attrConstBool], none⟩
    else ⟨[], none⟩
  | .bool, .str _ => ⟨[err a.file a.l .attrBool], none⟩
  | .bool, .expr e =>
    if (tc a.file e).ty = .none then ⟨[], some .attrTypeNone⟩
    else ⟨if (tc a.file e).ty = .bool then [] else [err a.file a.l .attrBool], none⟩
  | .intConst, .str _ => ⟨[err a.file a.l .attrInt], none⟩
  | .intConst, .expr e =>
    if (tc a.file e).ty = .none then ⟨[], some .attrTypeNone⟩
    else ⟨if (tc a.file e).ty ≠ .int then [err a.file a.l .attrInt]
          else if !a.constOk e then [err a.file a.l .attrConst] else [], none⟩
  | .strList, .str v => ⟨if v then [] else [err a.file a.l .attrStr], none⟩
  | .strList, .expr _ => ⟨[err a.file a.l .attrStr], none⟩
  | .backEnds, .str v => ⟨if v then [] else [err a.file a.l .attrStr], none⟩
  | .backEnds, .expr _ => ⟨[err a.file a.l .attrString], none⟩

def attrAll : List Attr → PassRes
  | [] => ⟨[], none⟩
  | a :: as => (attrOne a).app (attrAll as)

/-- After the validators: nothing raises any more (`ir_util.get_boolean_attribute` reads the
value of any constant boolean expression, so `[is_signed: 1 == 1]` is "is_signed present" and no
second `is_signed` is appended).  Kept as the place where the late attribute passes would be
modelled; `Crash.attrSignedNotLiteral` is no longer produced. -/
def attrLate : List Attr → Option Crash
  | [] => none
  | _ :: as => attrLate as

inductive Outcome
  | accepted
  | rejected (pass : Nat) (errs : List Err)   -- 1 annotate_types, 2 check_types, 3 attribute typing, 9 deferred (synthetic)
  | crashed (c : Crash)
  deriving Repr, DecidableEq

/-- `glue.process_ir` restricted to the three modelled passes: a pass with visible errors
stops the pipeline; hidden (synthetic) ones are deferred to the end. -/
def run (m : Module) : Outcome :=
  let a := annotate m
  if (a.filter (!·.hidden)) ≠ [] then .rejected 1 (a.filter (!·.hidden)) else
  let c := checkTypes m
  match c.crash with
  | some k => .crashed k
  | none =>
    if (c.errs.filter (!·.hidden)) ≠ [] then .rejected 2 (c.errs.filter (!·.hidden)) else
    let t := attrAll m.attrs
    match t.crash with
    | some k => .crashed k
    | none =>
      if (t.errs.filter (!·.hidden)) ≠ [] then .rejected 3 (t.errs.filter (!·.hidden)) else
      match attrLate m.attrs with
      | some k => .crashed k
      | none =>
      let hid := (a ++ c.errs ++ t.errs).filter (·.hidden)
      if hid ≠ [] then .rejected 9 hid else .accepted

end Emboss.Types
