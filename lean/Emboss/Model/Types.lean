/-
Impl model for C13 — expression typing (compiler/front_end/type_check.py,
compiler/util/attribute_util.py, the attribute-type table of attribute_checker.py).

The model works on *resolved* expressions: name resolution is C12's business, so a
reference carries what `ir_util.find_object` would return for it (the expression type
of a parameter / physical field, or — for virtual fields — the referred
`read_transform` itself, inlined; dependency cycles are rejected by an earlier pass, so
the unfolding is a finite tree).  Everything is as *coded*, quirks included; the model
has an explicit `crash` value for the places where the Python raises.
-/
namespace Emboss.Types

/-- `Expression.type`: `absent` = the attribute is `None` (the checker gave up before
creating it: `expr.type.which_type` raises); `unset` = an empty `ExpressionType`
(`which_type is None`), which is what copying an absent type through a reference yields. -/
inductive Ty
  | int | bool | enum (n : Nat) | opaque | unset | absent
  deriving DecidableEq, Repr

/-- `ir_data_utils.builder(e).type.CopyFrom(other.type)`. -/
def Ty.copied : Ty → Ty
  | .absent => .unset
  | t => t

/-- `reader(e).type.which_type` is truthy. -/
def Ty.annotated : Ty → Bool
  | .unset | .absent => false
  | _ => true

/-- What a declaration can give a parameter or physical field
(`unbounded_expression_type_for_physical_type`): never "no type". -/
inductive DTy
  | int | bool | enum (n : Nat) | opaque
  deriving DecidableEq, Repr

def DTy.toTy : DTy → Ty
  | .int => .int
  | .bool => .bool
  | .enum n => .enum n
  | .opaque => .opaque

/-- integer, boolean or enumeration: the types a value-level operator can handle. -/
def Ty.isValue : Ty → Bool
  | .int | .bool | .enum _ => true
  | _ => false

/-- A source location: identifier (the harness keeps the table) + `is_synthetic`. -/
structure Loc where
  id : Nat
  syn : Bool
  deriving DecidableEq, Repr

inductive BinOp
  | add | sub | mul | and | or | eq | ne | lt | le | gt | ge
  deriving DecidableEq, Repr

inductive Fn
  | max | present | upper | lower
  deriving DecidableEq, Repr

/-- Resolved expressions (`ir_data.Expression` after `resolve_field_references`). -/
inductive Expr
  | num (l : Loc)                          -- constant
  | boolc (l : Loc)                        -- boolean_constant
  | enumv (l : Loc) (n : Nat)              -- constant_reference → EnumValue of enum n
  | cphys (l : Loc) (dl : Loc)             -- constant_reference → physical field (at dl)
  | cvirt (l : Loc) (d : Expr)             -- constant_reference → virtual field with read_transform d
  | cother (l : Loc)                       -- constant_reference → anything else (a runtime parameter)
  | lparam (l : Loc) (t : DTy)             -- field_reference → runtime parameter of atomic physical type
  | lparamArr (l : Loc)                    -- field_reference → runtime parameter declared with an array type
  | lphys (l : Loc) (t : DTy)              -- field_reference → physical field (opaque for arrays/structs)
  | lvirt (l : Loc) (d : Expr)             -- field_reference → virtual field with read_transform d
  | builtin (l : Loc) (isBool : Bool)      -- $is_statically_sized (true) / $static_size_in_bits (false)
  | bin (l : Loc) (op : BinOp) (a b : Expr)
  | choice (l : Loc) (c t f : Expr)
  | fn (l : Loc) (f : Fn) (args : List Expr)
  deriving Repr

def Expr.loc : Expr → Loc
  | .num l | .boolc l | .enumv l _ | .cphys l _ | .cvirt l _ | .cother l | .lparam l _
  | .lparamArr l | .lphys l _ | .lvirt l _ | .builtin l _ | .bin l _ _ _ | .choice l _ _ _
  | .fn l _ _ => l

/-- `which_expression == "field_reference"`. -/
def Expr.isFieldRef : Expr → Bool
  | .lparam .. | .lparamArr .. | .lphys .. | .lvirt .. => true
  | _ => false

/-- Error classes (one per message template of the modelled code). -/
inductive Cls
  | mustInt (arg : Nat)      -- "<Left|Right argument|Argument n> of <operator|function> 'f' must be an integer."
  | mustBool (arg : Nat)     -- "... must be a boolean."
  | mustField (arg : Nat)    -- "... must be a field."
  | arity                    -- "Function 'f' requires exactly|at least|at most n argument(s)."
  | cmpArg (arg : Nat)       -- "<Left|Right> argument of operator 'op' must be an integer[, boolean,] or enum."
  | cmpSame                  -- "Both arguments of operator 'op' must have the same type."
  | chCond | chTrue | chSame -- the three `?:` messages
  | staticPhys               -- "Static references to physical fields are not allowed."
  | posStart | posSize | posArray | posExist
  | paramArray | paramKind | passArity | passKind (i : Nat)
  | attrBool | attrConstBool | attrInt | attrConst | attrStr
  deriving DecidableEq, Repr

/-- Where the Python raises instead of reporting. -/
inductive Crash
  | constRefOther      -- type_check._type_check_constant_reference: assert False
  | arrayParamRef      -- type_check._type_check_local_reference: None.reference
  | passedTypeName     -- type_check._type_name_for_error_messages: assert False
  | attrConstBoolExpr  -- attribute_util._is_constant_boolean: None.has_field
  | attrBackEnds       -- attribute_checker._valid_back_ends: None.text
  | attrSignedNotLiteral -- ir_util.get_attribute: assert "Duplicate attribute" (via attribute_checker)
  | cmpNone            -- type_check._type_check_comparison_operator: None.which_type
  | chNone             -- type_check._type_check_choice_operator: None.which_type
  | compatNone         -- type_check._types_are_compatible: None.which_type
  deriving DecidableEq, Repr

/-- One error group: primary location, class, the locations of its notes, and whether the
`source_file` of the message is a real file name (`bad = true`: as coded,
`_type_check_local_reference` passes a `Reference` object where a file name is due). -/
structure Err where
  l : Loc
  cls : Cls
  notes : List Loc
  bad : Bool
  deriving DecidableEq, Repr

def Err.markBad (e : Err) : Err := { e with bad := true }

/-- `error.split_errors`: a group is hidden when any of its locations is synthetic. -/
def Err.hidden (e : Err) : Bool := e.l.syn || e.notes.any (·.syn)

structure Res where
  ty : Ty
  errs : List Err
  crash : Option Crash
  deriving Repr

def Res.pure (t : Ty) : Res := ⟨t, [], none⟩

structure ResList where
  tys : List Ty
  errs : List Err
  crash : Option Crash
  deriving Repr

def orCrash (a b : Option Crash) : Option Crash :=
  match a with
  | some c => some c
  | none => b

def BinOp.isCmp : BinOp → Bool
  | .eq | .ne | .lt | .le | .gt | .ge => true
  | _ => false

def BinOp.isEquality : BinOp → Bool
  | .eq | .ne => true
  | _ => false

/-- argument type / result type of the monomorphic binary operators. -/
def BinOp.mono : BinOp → Ty
  | .and | .or => .bool
  | _ => .int

/-- `acceptable_types` of `_type_check_comparison_operator` — as coded, ordering accepts enums. -/
def cmpAcceptable (op : BinOp) (t : Ty) : Bool :=
  if op.isEquality then t.isValue
  else match t with
    | .int | .enum _ => true
    | _ => false

def err (l : Loc) (c : Cls) : Err := ⟨l, c, [], false⟩

/-- checks of one argument of a monomorphic operator/function. -/
def argErr (want : Ty) (i : Nat) (a : Expr) (t : Ty) : List Err :=
  if t = want then [] else [err a.loc (if want = .bool then .mustBool i else .mustInt i)]

/-- per-argument checks for the n-ary functions: `zip(args, arg_names)`. -/
def fnArgErrs (f : Fn) : Nat → List Expr → List Ty → List Err
  | i, a :: as, t :: ts =>
    (match f with
     | .present => if a.isFieldRef then [] else [err a.loc (.mustField i)]
     | _ => argErr .int i a t) ++ fnArgErrs f (i + 1) as ts
  | _, _, _ => []

def Fn.arityOk (f : Fn) (n : Nat) : Bool :=
  match f with
  | .max => 1 ≤ n
  | _ => n = 1

def Fn.result : Fn → Ty
  | .present => .bool
  | _ => .int

mutual
/-- `_type_check_expression`: the annotated type, the errors appended, and the first crash. -/
def tc : Expr → Res
  | .num _ => .pure .int
  | .boolc _ => .pure .bool
  | .enumv _ n => .pure (.enum n)
  | .cphys l dl => ⟨.absent, [⟨l, .staticPhys, [dl], false⟩], none⟩
  | .cvirt _ d =>
    let r := tc d
    { r with ty := r.ty.copied }
  | .cother _ => ⟨.absent, [], some .constRefOther⟩
  | .lparam _ t => .pure t.toTy
  | .lparamArr _ => ⟨.absent, [], some .arrayParamRef⟩
  | .lphys _ t => .pure t.toTy
  | .lvirt _ d =>
    let r := tc d
    -- an unannotated read_transform is re-checked through the reference, and the messages
    -- of that re-check carry `expression.field_reference.path[0]` as their file name
    ⟨r.ty.copied, if r.ty.annotated then r.errs else r.errs.map Err.markBad, r.crash⟩
  | .builtin _ b => .pure (if b then .bool else .int)
  | .bin l op a b =>
    let ra := tc a
    let rb := tc b
    let sub := ra.errs ++ rb.errs
    let cr := orCrash ra.crash rb.crash
    if op.isCmp then
      if ra.ty = .absent then ⟨.absent, sub, orCrash cr (some .cmpNone)⟩
      else if !cmpAcceptable op ra.ty then ⟨.absent, sub ++ [err a.loc (.cmpArg 0)], cr⟩
      else if rb.ty = .absent then ⟨.absent, sub, orCrash cr (some .cmpNone)⟩
      else if !cmpAcceptable op rb.ty then ⟨.absent, sub ++ [err b.loc (.cmpArg 1)], cr⟩
      else ⟨.bool, sub ++ (if ra.ty = rb.ty then [] else [err l .cmpSame]), cr⟩
    else
      ⟨op.mono, sub ++ argErr op.mono 0 a ra.ty ++ argErr op.mono 1 b rb.ty, cr⟩
  | .choice l c t f =>
    let rc := tc c
    let rt := tc t
    let rf := tc f
    let sub := rc.errs ++ rt.errs ++ rf.errs
    let cr := orCrash rc.crash (orCrash rt.crash rf.crash)
    let e1 := if rc.ty = .bool then [] else [err c.loc .chCond]
    if rc.ty = .absent ∨ rt.ty = .absent then ⟨.absent, sub, orCrash cr (some .chNone)⟩
    else if !rt.ty.isValue then ⟨.absent, sub ++ e1 ++ [err t.loc .chTrue], cr⟩
    else if rf.ty = .absent then ⟨.absent, sub, orCrash cr (some .compatNone)⟩
    else ⟨rt.ty, sub ++ e1 ++ (if rt.ty = rf.ty then [] else [err l .chSame]), cr⟩
  | .fn l f args =>
    let rs := tcList args
    ⟨f.result,
     rs.errs ++ fnArgErrs f 0 args rs.tys ++ (if f.arityOk args.length then [] else [err l .arity]),
     rs.crash⟩
/-- arguments left to right. -/
def tcList : List Expr → ResList
  | [] => ⟨[], [], none⟩
  | e :: es =>
    let r := tc e
    let rs := tcList es
    ⟨r.ty :: rs.tys, r.errs ++ rs.errs, orCrash r.crash rs.crash⟩
end

mutual
/-- The expression and all its syntactic descendants (`function.args`, recursively) — what
`fast_traverse_ir_top_down(..., [ArrayType, Expression], ...)` visits under an array type.
References are leaves: the referred definition is not a child. -/
def subexprs : Expr → List Expr
  | .bin l op a b => .bin l op a b :: (subexprs a ++ subexprs b)
  | .choice l c t f => .choice l c t f :: (subexprs c ++ (subexprs t ++ subexprs f))
  | .fn l f args => .fn l f args :: subexprsList args
  | e => [e]
def subexprsList : List Expr → List Expr
  | [] => []
  | e :: es => subexprs e ++ subexprsList es
end

mutual
/-- closed = mentions no parameter / physical field: the model's stand-in for
`ir_util.is_constant` after `compute_constants` (constant folding itself is C05's). -/
def closed : Expr → Bool
  | .num _ | .boolc _ | .enumv _ _ | .builtin _ _ => true
  | .cphys .. | .cother _ | .lparam .. | .lparamArr _ | .lphys .. => false
  | .cvirt _ d | .lvirt _ d => closed d
  | .bin _ _ a b => closed a && closed b
  | .choice _ c t f => closed c && (closed t && closed f)
  | .fn _ _ args => closedList args
def closedList : List Expr → Bool
  | [] => true
  | e :: es => closed e && closedList es
end

/-! ## Module level: `annotate_types`, `check_types`, attribute value typing -/

/-- `RuntimeParameter.physical_type_alias`: an array type, or an atomic type whose
definition yields expression type `t`. -/
inductive PTy
  | array
  | atomic (t : DTy)
  deriving DecidableEq, Repr

structure Param where
  l : Loc            -- physical_type_alias.source_location
  pty : PTy
  deriving Repr

def Param.ty (p : Param) : Ty :=
  match p.pty with
  | .array => .unset
  | .atomic t => t.toTy

/-- An `AtomicType` use with its passed runtime parameters; `expected` are the
`(type, source_location)` of the referenced definition's parameters. -/
structure Passed where
  l : Loc
  defLoc : Loc
  expected : List (Ty × Loc)
  given : List Expr
  deriving Repr

inductive AKind
  | boolConstSigned   -- is_signed
  | boolConstInteger  -- is_integer
  | bool              -- requires, static_requirements
  | intConst          -- addressable_unit_size, maximum_bits, fixed_size_in_bits
  | strList           -- byte_order, text_output
  | backEnds          -- expected_back_ends
  deriving DecidableEq, Repr

inductive AVal
  | str (valid : Bool)        -- string constant; `valid` = member of the attribute's value list / matches its pattern
  | expr (e : Expr)
  deriving Repr

structure Attr where
  l : Loc            -- attr.value.source_location
  kind : AKind
  val : AVal
  deriving Repr

structure Module where
  exprs : List Expr                 -- every top-level Expression of the IR (traversal order)
  params : List Param
  locations : List (Expr × Expr)    -- FieldLocation start, size
  arrays : List Expr                -- ArrayType.element_count
  conds : List Expr                 -- Field.existence_condition
  passed : List Passed
  enumValues : List Expr            -- EnumValue.value (not inspected by check_types, as coded)
  attrs : List Attr
  deriving Repr

structure PassRes where
  errs : List Err
  crash : Option Crash
  deriving Repr

def PassRes.app (a b : PassRes) : PassRes := ⟨a.errs ++ b.errs, orCrash a.crash b.crash⟩

/-- `annotate_types`: every expression, then `_annotate_parameter_type`. -/
def annotate (m : Module) : PassRes :=
  let rs := tcList m.exprs
  ⟨rs.errs ++ m.params.flatMap (fun p => if p.pty = .array then [err p.l .paramArray] else []),
   rs.crash⟩

def wantTy (want : Ty) (c : Cls) (e : Expr) : List Err :=
  if (tc e).ty = want then [] else [err e.loc c]

/-- `_type_name_for_error_messages` is defined on integer and enumeration only. -/
def Ty.hasName : Ty → Bool
  | .int | .enum _ => true
  | _ => false

/-- `which_type` only: two enumerations compare equal here, as coded. -/
def sameWhich : Ty → Ty → Bool
  | .int, .int | .bool, .bool | .enum _, .enum _ | .opaque, .opaque | .unset, .unset
  | .absent, .absent => true
  | _, _ => false

def passedArgs : Nat → List (Ty × Loc) → List Expr → PassRes
  | i, (t, pl) :: ts, g :: gs =>
    let rest := passedArgs (i + 1) ts gs
    if !t.isValue then rest
    else
      let gt := (tc g).ty
      if sameWhich gt t then rest
      else if t.hasName && gt.hasName then ⟨⟨g.loc, .passKind i, [pl], false⟩ :: rest.errs, rest.crash⟩
      else ⟨[], some .passedTypeName⟩
  | _, _, _ => ⟨[], none⟩

def passedOne (p : Passed) : PassRes :=
  if p.expected.length ≠ p.given.length then ⟨[⟨p.l, .passArity, [p.defLoc], false⟩], none⟩
  else passedArgs 0 p.expected p.given

def passedAll : List Passed → PassRes
  | [] => ⟨[], none⟩
  | p :: ps => (passedOne p).app (passedAll ps)

/-- `check_types`, in the order of its five traversals. -/
def checkTypes (m : Module) : PassRes :=
  let e1 := m.locations.flatMap (fun p => wantTy .int .posStart p.1 ++ wantTy .int .posSize p.2)
  -- as coded, *every* expression below an ArrayType must be an integer, not only the count
  let e2 := m.arrays.flatMap (fun a => (subexprs a).flatMap (wantTy .int .posArray))
  let e3 := m.conds.flatMap (wantTy .bool .posExist)
  let e4 := m.params.flatMap (fun p =>
    match p.ty with
    | .int | .enum _ => []
    | _ => [err p.l .paramKind])
  (PassRes.mk (e1 ++ e2 ++ e3 ++ e4) none).app (passedAll m.passed)

/-- attribute value typing (`attribute_util` validators as wired up by `attribute_checker`). -/
def attrOne (a : Attr) : PassRes :=
  match a.kind, a.val with
  | .boolConstSigned, .str _ | .boolConstInteger, .str _ => ⟨[err a.l .attrConstBool], none⟩
  | .boolConstSigned, .expr e =>
    if (tc e).ty ≠ .bool then ⟨[], some .attrConstBoolExpr⟩
    else if !closed e then ⟨[err a.l .attrConstBool], none⟩
    else ⟨[], none⟩
  | .boolConstInteger, .expr e =>
    if (tc e).ty ≠ .bool then ⟨[], some .attrConstBoolExpr⟩
    else if !closed e then ⟨[err a.l .attrConstBool], none⟩
    else ⟨[], none⟩
  | .bool, .str _ => ⟨[err a.l .attrBool], none⟩
  | .bool, .expr e => ⟨if (tc e).ty = .bool then [] else [err a.l .attrBool], none⟩
  | .intConst, .str _ => ⟨[err a.l .attrInt], none⟩
  | .intConst, .expr e =>
    ⟨if (tc e).ty ≠ .int then [err a.l .attrInt] else if !closed e then [err a.l .attrConst] else [], none⟩
  | .strList, .str v => ⟨if v then [] else [err a.l .attrStr], none⟩
  | .strList, .expr _ => ⟨[err a.l .attrStr], none⟩
  | .backEnds, .str v => ⟨if v then [] else [err a.l .attrStr], none⟩
  | .backEnds, .expr _ => ⟨[], some .attrBackEnds⟩

def attrAll : List Attr → PassRes
  | [] => ⟨[], none⟩
  | a :: as => (attrOne a).app (attrAll as)

/-- After the validators: `_add_missing_width_and_sign_attributes_on_enum` recognises only a
*literal* `true`/`false` as "is_signed present", appends a second `is_signed`, and the next
`ir_util.get_attribute` trips its duplicate assertion. -/
def attrLate : List Attr → Option Crash
  | [] => none
  | a :: as =>
    match a.kind, a.val with
    | .boolConstSigned, .expr (.boolc _) => attrLate as
    | .boolConstSigned, .expr _ => some .attrSignedNotLiteral
    | _, _ => attrLate as

inductive Outcome
  | accepted
  | rejected (pass : Nat) (errs : List Err)   -- 1 annotate_types, 2 check_types, 3 attribute typing, 9 deferred (synthetic)
  | crashed (c : Crash)
  deriving Repr, DecidableEq

/-- `glue.process_ir` restricted to the three modelled passes: a pass with visible errors
stops the pipeline; hidden (synthetic) ones are deferred to the end. -/
def run (m : Module) : Outcome :=
  let a := annotate m
  match a.crash with
  | some c => .crashed c
  | none =>
    if (a.errs.filter (!·.hidden)) ≠ [] then .rejected 1 (a.errs.filter (!·.hidden)) else
    let c := checkTypes m
    match c.crash with
    | some k => .crashed k
    | none =>
      if (c.errs.filter (!·.hidden)) ≠ [] then .rejected 2 (c.errs.filter (!·.hidden)) else
      let t := attrAll m.attrs
      match t.crash with
      | some k => .crashed k
      | none =>
        if (t.errs.filter (!·.hidden)) ≠ [] then .rejected 3 (t.errs.filter (!·.hidden)) else
        match attrLate m.attrs with
        | some k => .crashed k
        | none =>
        let hid := (a.errs ++ c.errs ++ t.errs).filter (·.hidden)
        if hid ≠ [] then .rejected 9 hid else .accepted

end Emboss.Types
