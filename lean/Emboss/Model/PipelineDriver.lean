/-
C16 (round 2) — impl model of the plumbing around `glue.parse_emboss_file`:

  * compiler/front_end/emboss_front_end.py  `_find_in_dirs_and_read` (search of the import
                                            directories), `parse_and_log_errors`, `main`
  * compiler/front_end/glue.py              `parse_module` (what an unreadable file becomes)
  * embossc                                 `main`: front end → back end → output file
  * compiler/back_end/cpp/emboss_codegen_cpp.py  `generate_headers_and_log_errors`, `main`
  * compiler/front_end/tokenizer.py         the source locations tokens get
  * compiler/util/parser_types.py           `merge_source_locations`
  * `os.path.join` / `os.path.dirname` (posix), as far as `embossc` uses them

Every place where Python can raise is an explicit result (`FindResult.raised`,
`RunResult.raised`), so "no traceback" = "the result is not `raised`".
-/
import Emboss.Model.Pipeline
namespace Emboss.Pipeline

/-! ### `_find_in_dirs_and_read` -/

/-- What `with open(join(dir, name)) as f: f.read()` does in one import directory. -/
inductive Probe
  | text (t : Text)          -- the file was read
  | osError (msg : Text)     -- OSError = IOError: missing, a directory, path through a file,
                             -- name too long, permission, dangling or looping symlink …
  | unicodeError (msg : Text) -- UnicodeDecodeError (a ValueError, *not* an OSError)
  | valueError (msg : Text)  -- any other ValueError: `open()` rejects the *name* itself
                             -- ("embedded null byte"); caught since 9d2590a
                             -- (`except (IOError, ValueError)`)
  | otherError (name : String) -- any other exception class (not an OSError, not a ValueError)
deriving DecidableEq, Repr

inductive FindResult
  | found (t : Text)                 -- `(text, None)`
  | notFound (errors : List Text)    -- `(None, errors + ["import path …"])`
  | raised (name : String)           -- the exception escapes `_find_and_read`
deriving DecidableEq, Repr

def importPathLine (dirs : List Text) : Text :=
  "import path ".toList ++ joinWith [':'] dirs

/-- The `for import_dir in import_dirs` loop; `errs` = messages collected so far. -/
def findLoop (allDirs : List Text) : List (Text × Probe) → List Text → FindResult
  | [], errs => .notFound (errs ++ [importPathLine allDirs])
  | (_, .text t) :: _, _ => .found t
  | (_, .osError m) :: rest, errs => findLoop allDirs rest (errs ++ [m])
  | (_, .unicodeError m) :: rest, errs => findLoop allDirs rest (errs ++ [m])
  | (_, .valueError m) :: rest, errs => findLoop allDirs rest (errs ++ [m])
  | (_, .otherError n) :: _, _ => .raised n

/-- `_find_in_dirs_and_read(import_dirs)(file_name)`, given what opening the file does in
each directory. -/
def findAndRead (probes : List (Text × Probe)) : FindResult :=
  findLoop (probes.map (·.1)) probes []

/-! ### `glue.parse_module`: an unreadable file -/

/-- The group `parse_module` returns when the reader gives `(None, errors)` with a truthy
list: one error and one note per detail string, all at `1:1`. -/
def unreadableGroup (file : String) (details : List Text) : Group :=
  let loc : Loc := ⟨1, 1, 1, 1, false⟩
  { file := file, loc := loc, sev := .error, text := "Unable to read file.".toList } ::
  details.map fun d => { file := file, loc := loc, sev := .note, text := d }

/-- What `parse_module(file_name, file_reader)` does with the reader's answer: `none` =
go on to `parse_module_text`; `some (.ok g)` = the unreadable-file group; `some (.error n)` =
the reader raised.  (A reader answering `(None, [])` is treated as readable by the code —
`if errors:` — and then fails inside the tokenizer; `_find_and_read` never answers that,
see `C16_find_and_read_total`.) -/
def parseModuleRead (file : String) : FindResult → Option (Except String Group)
  | .found _ => none
  | .notFound errs => if errs.isEmpty then none else some (.ok (unreadableGroup file errs))
  | .raised n => some (.error n)

/-! ### posix `os.path.join` (two arguments) and `os.path.dirname` -/

def pathJoin (a b : Text) : Text :=
  if b.head? = some '/' then b
  else if a.isEmpty || a.getLast? = some '/' then a ++ b
  else a ++ '/' :: b

/-- `s.rstrip('/')`. -/
def rstripSlash (s : Text) : Text := (s.reverse.dropWhile (· == '/')).reverse

/-- Everything up to and including the last `/` (`p[:p.rfind('/') + 1]`). -/
def headUpToLastSlash (p : Text) : Text := (p.reverse.dropWhile (· != '/')).reverse

def dirname (p : Text) : Text :=
  let head := headUpToLastSlash p
  if !head.isEmpty && head.any (· != '/') then rstripSlash head else head

/-! ### the executables -/

/-- What a run of an executable does as far as the outside can see. -/
inductive RunResult
  | exit (code : Nat) (stderr : Text) (written : Option (Text × Text))
  | raised (name : String)
deriving DecidableEq, Repr

/-- What the front end (`glue.parse_emboss_file`) hands back: an IR (`sources` = the
`(source_file_name, source_text)` of its modules) or error groups. -/
inductive FrontResult (σ : Type)
  | ir (s : σ) (sources : List (String × Text))
  | errors (es : Errors)

/-- `print(error.format_errors(errors, source_codes, use_color), file=sys.stderr)`. -/
def showErrors (es : Errors) (sources : List (String × Text)) (color : Bool) : Except Crash Text :=
  match formatErrors es sources color with
  | .ok t => .ok (t ++ ['\n'])
  | .error c => .error c

def crashName : Crash → String
  | .indexError => "IndexError"
  | .emptyGroup => "AssertionError"
  | .badStopStep => "AssertionError"
  | .lateStopAssert => "AssertionError"

/-- The file system as far as writing the output is concerned: can the directory be
created (`os.makedirs(d, exist_ok=True)`), can the file be opened for writing. -/
structure OutFs where
  makedirs : Text → Bool
  openWrite : Text → Bool

/-- Where `embossc` writes: `os.path.join(flags.output_path[0], output_file)` with
`output_file = flags.output_file[0]` if given, else `input_file + ".h"`; the default of
`--output-path` is the string `"."` (whose `[0]` is `"."` again). -/
def embosscOutput (outputPath : Option Text) (outputFile : Option Text) (input : Text) : Text :=
  pathJoin (outputPath.getD ['.']) (match outputFile with | some f => f | none => input ++ ".h".toList)

/-- `embossc.main`: `--output-path` (default `"."`), `--output-file` (default
`input + ".h"`).  `parse_and_log_errors` prints front-end errors with *no* sources (the
IR is `None` whenever there are errors); the back end's errors are printed with the
sources of the IR's modules.  `os.makedirs("")` raises `FileNotFoundError`. -/
def embosscMain (front : FrontResult σ) (back : σ → Text × Errors) (color : Bool)
    (outputPath : Option Text) (outputFile : Option Text) (input : Text) (fs : OutFs) : RunResult :=
  match front with
  | .errors es =>
    if es.isEmpty then .raised "front-end-returned-empty-error-list"  -- not reachable: see below
    else match showErrors es [] color with
      | .ok t => .exit 1 t none
      | .error c => .raised (crashName c)
  | .ir s sources =>
    let r := back s
    if !r.2.isEmpty then
      match showErrors r.2 sources color with
      | .ok t => .exit 1 t none
      | .error c => .raised (crashName c)
    else
      let path := embosscOutput outputPath outputFile input
      let dir := dirname path
      if dir.isEmpty then .raised "FileNotFoundError"
      else if !fs.makedirs dir then .raised "OSError"
      else if !fs.openWrite path then .raised "OSError"
      else .exit 0 [] (some (path, r.1))

/-- `glue.parse_emboss_file` never returns `(None, _, [])`: `embosscMain` receives either an
IR or a truthy list.  This wrapper is what the executables see. -/
def frontOf (o : Outcome σ) (sources : σ → List (String × Text)) : Except String (FrontResult σ) :=
  match o with
  | .ir s => .ok (.ir s (sources s))
  | .errors es => .ok (.errors es)
  | .crash c => .error (crashName c)
  | .outOfFuel => .error "out-of-fuel"

/-- `emboss_front_end.main` without the `--debug-*` printing flags: errors → 1, else the
serialised IR goes to `--output-file` (if given). -/
def frontEndMain (front : FrontResult σ) (json : σ → Text) (color : Bool)
    (outputFile : Option Text) (fs : OutFs) : RunResult :=
  match front with
  | .errors es =>
    if es.isEmpty then .raised "front-end-returned-empty-error-list"
    else match showErrors es [] color with
      | .ok t => .exit 1 t none
      | .error c => .raised (crashName c)
  | .ir s _ =>
    match outputFile with
    | none => .exit 0 [] none
    | some f => if fs.openWrite f then .exit 0 [] (some (f, json s)) else .raised "OSError"

/-- `emboss_codegen_cpp.main` on an IR that was read successfully. -/
def codegenMain (s : σ) (sources : List (String × Text)) (back : σ → Text × Errors) (color : Bool)
    (outputFile : Option Text) (fs : OutFs) : RunResult :=
  let r := back s
  if !r.2.isEmpty then
    match showErrors r.2 sources color with
    | .ok t => .exit 1 t none
    | .error c => .raised (crashName c)
  else
    match outputFile with
    | none => .exit 0 [] none
    | some f => if fs.openWrite f then .exit 0 [] (some (f, r.1)) else .raised "OSError"

/-! ### source locations: tokenizer and `merge_source_locations` -/

/-- The location `_tokenize_line` gives a token matched at offset `off` (0-based) with
`len` characters on line `ln`; also the end-of-line token (`off = len(line)`, `len = 0`),
`Indent` (`off = len(previous indent)`), `Dedent` (`len = 0`), the "Unrecognized token"
error (`len = 1`) and "Bad indentation" (`off = 0`). -/
def tokLoc (ln off len : Nat) : Loc := ⟨ln, off + 1, ln, off + len + 1, false⟩

/-- The `Dedent`s emitted after the last line: `(n + 1, 1)`. -/
def eofLoc (n : Nat) : Loc := ⟨n + 1, 1, n + 1, 1, false⟩

/-- Positions compare lexicographically (they are tuples). -/
def posLe (l1 c1 l2 c2 : Nat) : Bool := l1 < l2 || (l1 == l2 && c1 ≤ c2)

/-- `merge_source_locations` of the truthy locations (`bool(location) = bool(start.line)`;
the constructor keeps `line = 0 ↔ column = 0`): start of the first, end of the last, synthetic
if any is.  `.ok none` when there is none; `.error ()` when the `SourceLocation` constructor's
`assert start <= end` fails. -/
def mergeLocs (ls : List Loc) : Except Unit (Option Loc) :=
  let truthy := ls.filter fun l => l.sl != 0
  match truthy.head?, truthy.getLast? with
  | some a, some b =>
    if posLe a.sl a.sc b.el b.ec then .ok (some ⟨a.sl, a.sc, b.el, b.ec, truthy.any (·.synthetic)⟩)
    else .error ()
  | _, _ => .ok none

/-! ### `module_ir`'s hand-built locations (round 3)

`module_ir` builds 15 locations by hand from the locations of nodes it already has:
`SourceLocation(a.start, b.end)` (an expression from its first to its last operand, a type
with its array dimensions, an `external` body from `Indent` to `Dedent`),
`SourceLocation(op.start, op.start)` (the phantom `0` of a unary minus),
`SourceLocation(position, position)` (the prelude import),
`SourceLocation(open.end, close.start)` (the empty `[]` of an automatic dimension).  All of
them are: one endpoint of a known location, then one endpoint of a known location, through the
`SourceLocation` constructor with its two assertions. -/

/-- Which endpoint `x.source_location.start` / `x.source_location.end` selects. -/
inductive End
  | start
  | stop
deriving DecidableEq, Repr

def Loc.pos (l : Loc) : End → Nat × Nat
  | .start => (l.sl, l.sc)
  | .stop => (l.el, l.ec)

/-- `parser_types.SourceLocation(start, end)` for two positions: `assert start <= end` and
`assert (not start and not end) or (start and end)` (`bool(position) = bool(line)`); not
synthetic. -/
def mkLoc (p q : Nat × Nat) : Except Unit Loc :=
  if posLe p.1 p.2 q.1 q.2 && ((p.1 == 0) == (q.1 == 0)) then .ok ⟨p.1, p.2, q.1, q.2, false⟩
  else .error ()

/-- `SourceLocation(a.<ea>, b.<eb>)`. -/
def spanLoc (a : Loc) (ea : End) (b : Loc) (eb : End) : Except Unit Loc :=
  mkLoc (a.pos ea) (b.pos eb)

end Emboss.Pipeline
