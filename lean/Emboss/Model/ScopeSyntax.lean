/-
Impl model for C12, part 2: how `module_ir.py` names the types that are written *inline* in a
field (`0 [+4]  struct  foo_bar:` …, `enum`, `bits`, and the anonymous `0 [+1]  bits:`) and
where it puts them — the input of everything in `Emboss/Model/Scope.lean`.

What the code does (`_structure_body`, `_inline_type_field`, `_anonymous_bit_field`,
`_get_anonymous_field_name`, `parser_util.transform_parse_tree`):

* an inline field `foo_bar` gets a type named `snake_to_camel("foo_bar")` = `FooBar`; the field's
  type is a compiler-made reference to that name (`is_local_name`);
* an anonymous `bits:` gets the field name `emboss_reserved_anonymous_field_<k>` and the type
  name `EmbossReservedAnonymousField<k>`, `k` from a global counter that is incremented when the
  handler of the construct runs.  `transform_parse_tree` calls the handlers bottom-up and —
  because it pops the children of a node off a stack — **from the last child to the first**: the
  last anonymous `bits:` of a file gets the smallest number;
* `_inline_type_field` returns the new type followed by everything that had been collected in
  its `subtype` list (`subtypes = [body] + list(body.subtype); del body.subtype[:]`), and
  `_structure_body` makes the subtype list of a structure from the type definitions written in
  its body followed by what its fields returned.  So whatever is written inside an inline type
  moves out of it.

Two passes here (`number`, then `build`) where the Python does both in one traversal; the
numbering does not depend on anything `build` computes.
-/
import Emboss.Model.Scope
import Emboss.Model.Enum
namespace Emboss.Scope

inductive Tag
  /-- `struct Foo:` / `bits Foo:` / `enum Foo:` / `external Foo:` written as a definition -/
  | typeDef
  /-- a field with an inline `struct` / `bits` / `enum` -/
  | inline
  /-- `0 [+1]  bits:` -/
  | anon
  /-- any other field (physical or virtual) or an enum value -/
  | plain
  deriving DecidableEq, Repr

/-- A construct as written: the type definitions (`subs`) and the fields / enum values
(`fields`) in its body, in source order.  `num` is the number the anonymous-name counter gives
an anonymous `bits:` (filled in by `number`). -/
inductive Syn
  | node (tag : Tag) (name : String) (num : Nat) (subs : List Syn) (fields : List Syn)
  deriving Repr

/-- `ir_data.TypeDefinition` as far as names go: name, subtypes, field (or enum value) names -/
inductive IRType
  | mk (name : String) (subtypes : List IRType) (fields : List String)
  deriving Repr

/-- `name_conversion.snake_to_camel` (the model of C19, `Emboss.Enum.snakeToCamel`) -/
def camel (s : String) : String := String.ofList (Emboss.Enum.snakeToCamel s.toList)

/-- `_get_anonymous_field_name` -/
def anonName (k : Nat) : String := "emboss_reserved_anonymous_field_" ++ toString k

/-! ## The anonymous-name counter -/

mutual
/-- one construct: its children from the last to the first, then the construct itself -/
def number : Syn → Nat → Syn × Nat
  | .node tag name _ subs fields, c =>
    let f := numberAll fields c
    let s := numberAll subs f.2
    match tag with
    | .anon => (.node tag name (s.2 + 1) s.1 f.1, s.2 + 1)
    | _ => (.node tag name 0 s.1 f.1, s.2)
/-- a list of siblings: from the last to the first -/
def numberAll : List Syn → Nat → List Syn × Nat
  | [], c => ([], c)
  | t :: ts, c =>
    let r := numberAll ts c
    let x := number t r.2
    (x.1 :: r.1, x.2)
end

/-! ## Types and fields -/

/-- what the handler of a construct returns: for a field its name and the types that come with
it (`_FieldWithType`), for a type definition just the type -/
structure Built where
  fname : String
  types : List IRType
  deriving Repr

/-- the name a construct has as a field of the structure it is written in -/
def fieldName : Syn → String
  | .node .anon _ num _ _ => anonName num
  | .node _ name _ _ _ => name

mutual
def build : Syn → Built
  | .node tag name num subs fields =>
    let ts := buildAll subs
    let fs := buildAll fields
    -- `_structure_body`: `types.list + [subtype for field in fields.list for subtype in field.subtypes]`
    let collected := ts.flatMap (·.types) ++ fs.flatMap (·.types)
    let fnames := fs.map (·.fname)
    match tag with
    | .typeDef => ⟨name, [.mk name collected fnames]⟩
    -- `_inline_type_field`: `[body] + list(body.subtype)`, `del body.subtype[:]`
    | .inline => ⟨name, .mk (camel name) [] fnames :: collected⟩
    | .anon => ⟨anonName num, .mk (camel (anonName num)) [] fnames :: collected⟩
    | .plain => ⟨name, []⟩
def buildAll : List Syn → List Built
  | [] => []
  | t :: ts => build t :: buildAll ts
end

/-- `module.type` for the type definitions of a file -/
def buildModule (types : List Syn) : List IRType := (buildAll types).flatMap (·.types)

/-! ## Reading the IR: canonical names (`_add_type_name_to_scope`, `_add_struct_field_to_scope`) -/

mutual
/-- (scope, name) of the type and of everything nested in it, in the order `module.type` /
`subtype` are walked -/
def flatType (scope : Path) : IRType → List (Path × String)
  | .mk name subs _ => (scope, name) :: flatTypes (scope ++ [name]) subs
def flatTypes (scope : Path) : List IRType → List (Path × String)
  | [] => []
  | t :: ts => flatType scope t ++ flatTypes scope ts
end

mutual
/-- (scope, name) of the fields / enum values of the type and of everything nested in it -/
def flatField (scope : Path) : IRType → List (Path × String)
  | .mk name subs fs => fs.map (fun f => (scope ++ [name], f)) ++ flatFields (scope ++ [name]) subs
def flatFields (scope : Path) : List IRType → List (Path × String)
  | [] => []
  | t :: ts => flatField scope t ++ flatFields scope ts
end

end Emboss.Scope
