/-
Impl model for C07 (`enable_if` half): a classification of every `::std::enable_if` condition
of the C++ runtime and of the code templates (list regenerated into
`Emboss.Generated.enableIfs`), and for the ones whose arguments the code generator writes the
predicate that decides which member exists.

Import-free apart from `Emboss.Generated.EnableIfs`.
-/
import Emboss.Generated.EnableIfs
namespace Emboss.EnableIfs

inductive Class where
  /-- the condition is over a type or constant the *caller* passes (the byte type handed to a
  `ContiguousBuffer`/`Make…View`, the integer type handed to `CouldWriteValue`, the alignment of
  another buffer): an overload-selection rule of the documented API, exercised by the
  instantiate-everything driver with documented argument types -/
  | callerArgument
  /-- keeps the generated forwarding constructor from hijacking copy/move construction -/
  | overloadGuard
  /-- the condition is over template arguments the code generator writes into the header
  (`kAddressableUnitSize`, `kElementSize`, `Parameters::kBits`): modelled below -/
  | generated (tag : String)
deriving DecidableEq, Repr

def table : List (String × Class) := [
  ("((void)N,kAddressableUnitSize == 8)", .generated "array-unit"),
  ("((void)N,kAddressableUnitSize == 1)", .generated "array-unit"),
  ("kAddressableUnitSize == 8 && kElementSize == 1", .generated "byte-array-to-string"),
  ("Parameters::kBits == 8", .generated "ascii-shorthand"),
  ("IsAliasSafe<typename::std::remove_cv<typename::std::remove_reference<decltype(*(::std::declval<T>().data()))>::type>::type>::value &&::std::is_same<typename AddSourceCV<decltype(*::std::declval<T>().data()),Byte>::Type,Byte>::value", .callerArgument),
  ("IsAliasSafe<T>::value &&::std::is_same<typename AddSourceCV<T,Byte>::Type,Byte>::value", .callerArgument),
  ("kOtherAlignment % kAlignment == 0 && kOtherOffset % kAlignment == kOffset &&::std::is_same<typename AddSourceCV<OtherByte,Byte>::Type,Byte>::value &&!::std::is_same<ContiguousBuffer,ContiguousBuffer<OtherByte,kOtherAlignment,kOtherOffset>>::value", .callerArgument),
  ("kOtherAlignment % kAlignment == 0 && kOtherOffset % kAlignment == kOffset &&::std::is_same<typename AddSourceCV<OtherByte,Byte>::Type,Byte>::value", .callerArgument),
  ("IsAliasSafe<typename::std::remove_reference<decltype(*::std::declval<String>().data())>::type>::value", .callerArgument),
  ("(::std::numeric_limits<typename::std::remove_cv<typename::std::remove_reference<IntT>::type>::type>::is_integer &&!::std::is_same<bool,typename::std::remove_cv<typename::std::remove_reference<IntT>::type>::type>::value)||::std::is_enum<IntT>::value", .callerArgument),
  ("!EmbossReservedInternalIsGeneric${name}View<typename::std::remove_cv<typename::std::remove_reference<Arg>::type>::type>::value", .overloadGuard)
]

def classify (cond : String) : Option Class := (table.find? (fun p => p.1 == cond)).map (·.2)

def allClassified : Bool := Emboss.Generated.enableIfs.all (fun a => (classify a.2.1).isSome)

def provedTags : List String := ["array-unit", "byte-array-to-string", "ascii-shorthand"]

def allTagsProved : Bool :=
  table.all (fun p => match p.2 with
    | .generated t => provedTags.contains t
    | _ => true)

/-- `addressable_unit_size` the back end writes into `GenericArrayView<…>` for an array field of a
`struct` (bytes) or a `bits`. -/
def arrayUnit (isBits : Bool) : Nat := if isBits then 1 else 8

/-- Which of the two private `SizeOfBuffer()` overloads (and public `SizeInBytes()` /
`SizeInBits()`) exist for a given `kAddressableUnitSize`: (bytes version, bits version). -/
def sizeOverloads (unit : Nat) : Bool × Bool := (unit == 8, unit == 1)

/-- `ToString<String>()` exists. -/
def hasToString (unit elementSize : Nat) : Bool := unit == 8 && elementSize == 1

end Emboss.EnableIfs
