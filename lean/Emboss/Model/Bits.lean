/-
Executable model of the fixed-width integer arithmetic used by the Emboss C++ runtime
(`runtime/cpp/emboss_bit_util.h`, `emboss_cpp_types.h`).

C++ unsigned values of a `W`-bit type are modelled as `Nat`s below `2^W`; every operation
that C++ performs modulo `2^W` carries an explicit `wrap W`.  Operands of types narrower
than `int` are promoted to (32-bit) `int` before arithmetic: such arithmetic is modelled at
width `arithW W = 32` on the two's-complement bit pattern (none of the expressions of the
runtime overflows `int`, which the theorems establish by showing the wraps are no-ops).

Shared module (owner: C02/C03).  Imports nothing outside core.
-/
namespace Emboss.Bits

/-- `LeastWidthInteger<bits>`: the width of the smallest of uint8/16/32/64 holding `bits`. -/
def leastWidth (bits : Nat) : Nat :=
  if bits ≤ 8 then 8 else if bits ≤ 16 then 16 else if bits ≤ 32 then 32 else 64

/-- Width at which C++ evaluates arithmetic on a `W`-bit operand (integer promotion). -/
def arithW (W : Nat) : Nat := if W < 32 then 32 else W

/-- Truncation to a `W`-bit unsigned type. -/
def wrap (W x : Nat) : Nat := x % 2 ^ W

/-- `x << n` evaluated in a `W`-bit unsigned type (`n < W` in every use). -/
def shl (W x n : Nat) : Nat := wrap W (x <<< n)

/-- `~x` in a `W`-bit type. -/
def notW (W x : Nat) : Nat := 2 ^ W - 1 - wrap W x

/-- `a - b` in a `W`-bit unsigned type. -/
def subW (W a b : Nat) : Nat := wrap W (wrap W a + (2 ^ W - wrap W b))

def addW (W a b : Nat) : Nat := wrap W (a + b)
def mulW (W a b : Nat) : Nat := wrap W (a * b)

/-- Reinterpretation of a `W`-bit pattern as a two's-complement signed value
(`static_cast<intW_t>(u)`; implementation-defined before C++20, two's complement on every
supported compiler — listed in the trusted base). -/
def toSigned (W u : Nat) : Int :=
  if wrap W u < 2 ^ (W - 1) then (wrap W u : Int) else (wrap W u : Int) - (2 ^ W : Nat)

/-- `static_cast<uintW_t>(v)` for a signed or unsigned integer `v`. -/
def ofInt (W : Nat) (v : Int) : Nat := (v % ((2 ^ W : Nat) : Int)).toNat

/-- `MaskToNBits(value, bits)` for `T` = `W`-bit unsigned:
`bits < sizeof value * 8 ? value & ((static_cast<T>(1) << bits) - 1) : value`. -/
def maskToNBits (W value bits : Nat) : Nat :=
  if bits < W then wrap W (value &&& subW (arithW W) (shl (arithW W) 1 bits) 1) else value

/-- Portable `ByteSwap(uint16_t)`: `(x << 8) | (x >> 8)` (operands promoted to `int`,
result truncated to 16 bits on return). -/
def byteSwap16 (x : Nat) : Nat := wrap 16 (shl 32 x 8 ||| x >>> 8)

def byteSwap32 (x : Nat) : Nat :=
  shl 32 (byteSwap16 (wrap 16 x)) 16 ||| byteSwap16 (wrap 16 (x >>> 16))

def byteSwap64 (x : Nat) : Nat :=
  shl 64 (byteSwap32 (wrap 32 x)) 32 ||| byteSwap32 (wrap 32 (x >>> 32))

/-- `ByteSwap` overload selected by the operand type. -/
def byteSwap (W x : Nat) : Nat :=
  if W = 16 then byteSwap16 x else if W = 32 then byteSwap32 x
  else if W = 64 then byteSwap64 x else x

/-- Object representation on the (little-endian) host: the `n` bytes of a value. -/
def nativeStore : Nat → Nat → List Nat
  | 0, _ => []
  | n + 1, x => x % 256 :: nativeStore n (x / 256)

/-- Value of an object whose bytes are `mem` on the (little-endian) host. -/
def nativeLoad : List Nat → Nat
  | [] => 0
  | b :: bs => b + 256 * nativeLoad bs

end Emboss.Bits
