/-
C17 — impl model of the process-wide state of the emboss front end.

What the code has (established by reading and by `harness/translate/itersites.py`, which
lists every `global` statement and every module-level container mutated from a function):

  * `glue._cached_modules : dict[(source_text, file_name) → ModuleDebugInfo]`
      hit  → `ir_data_utils.copy(debug_info.ir)`, nothing else changes;
      miss → tokenize + parse (pure functions of the text and the file name);
             on an error nothing is stored; otherwise `module_ir.build_ir` runs, a copy of
             its result is stored, the original is returned.
  * `module_ir._anonymous_name_counter : int`, starts at 0, **never reset**: every
      anonymous `bits` field met by `build_ir` gets the name
      `emboss_reserved_anonymous_field_<++counter>`.  The names are part of the IR, of the
      cached copy, of the JSON and (as `EmbossReservedAnonymousField<N>`) of the header, so
      the numbering of a module depends on what was parsed earlier in the process.
  * write-once memos of constant functions (`parser._load_module_parser`,
      `constraints._RESERVED_WORDS`, `traverse_ir._memoized_caller`): modelled by
      `memoStep` in `PurityPatterns`, not repeated here.

A parsed module is modelled by its *skeleton* (the IR with the anonymous names replaced by
holes `0 … k-1`, numbered in the order `build_ir` meets them) plus the counter value at
which it was built (`base`): hole `i` carries the number `base + 1 + i`.
-/
namespace Emboss.Purity

/-- One token of a serialised module IR: literal text or the i-th anonymous name. -/
inductive Tok
  | lit (s : String)
  | hole (i : Nat)
  deriving DecidableEq, Repr

/-- The same with the anonymous names numbered. -/
inductive Atom
  | lit (s : String)
  | anon (n : Nat)
  deriving DecidableEq, Repr

/-- What parsing one source text yields, up to the numbering of anonymous names. -/
structure Skel where
  imports : List String
  body : List Tok
  deriving DecidableEq, Repr

/-- Number of anonymous names of a skeleton: holes are `0 … anon-1`. -/
def holesBound : List Tok → Nat
  | [] => 0
  | .lit _ :: r => holesBound r
  | .hole i :: r => max (i + 1) (holesBound r)

def Skel.anon (s : Skel) : Nat := holesBound s.body

/-- Cache key: `(source_code, file_name)`. -/
abbrev Key := String × String

/-- A module-level IR as `parse_module_text` returns it. -/
structure ModIR where
  text : String
  file : String
  base : Nat
  skel : Skel
  deriving DecidableEq, Repr

def number (base : Nat) : Tok → Atom
  | .lit s => .lit s
  | .hole i => .anon (base + 1 + i)

/-- The IR content that later passes, the serialiser and the back end see. -/
def ModIR.atoms (m : ModIR) : List Atom := m.skel.body.map (number m.base)

/-- The compiler proper: tokenizer + LR(1) parser + `build_ir`, a function of the text and
the file name (error locations carry the file name) — `.error d` is the diagnostic. -/
abbrev Parser := String → String → Except String Skel

structure St where
  cache : List (Key × ModIR)
  counter : Nat
  deriving Repr

def St.init : St := ⟨[], 0⟩

def cacheGet : List (Key × ModIR) → Key → Option ModIR
  | [], _ => none
  | (k', m) :: r, k => if k = k' then some m else cacheGet r k

/-- `glue.parse_module_text(source_code, file_name)`. -/
def step (P : Parser) (σ : St) (text file : String) : St × Except String ModIR :=
  match cacheGet σ.cache (text, file) with
  | some m => (σ, .ok m)                                  -- hit: deep copy of the cached IR
  | none =>
    match P text file with
    | .error d => (σ, .error d)                           -- nothing cached, counter untouched
    | .ok sk =>
      let m : ModIR := ⟨text, file, σ.counter, sk⟩
      (⟨((text, file), m) :: σ.cache, σ.counter + sk.anon⟩, .ok m)

/-- `file_reader`: contents or the list of error details.  The prelude is the file `""`. -/
abbrev Reader := String → Except String String

inductive Outcome
  | ok (mods : List ModIR)
  | error (diag : String)
  | outOfFuel
  deriving DecidableEq, Repr

/-- The `for import_ in module.foreign_import` loop of `only_parse_emboss_file`. -/
def enqueue (q seen : List String) : List String → List String × List String
  | [] => (q, seen)
  | i :: r => if seen.contains i then enqueue q seen r else enqueue (q ++ [i]) (seen ++ [i]) r

/-- `glue.only_parse_emboss_file`: breadth-first walk of the import graph. -/
def compileAux (P : Parser) (read : Reader) : Nat → St → List String → List String → List ModIR →
    St × Outcome
  | 0, σ, _, _, _ => (σ, .outOfFuel)
  | _ + 1, σ, [], _, acc => (σ, .ok acc)
  | fuel + 1, σ, f :: q, seen, acc =>
    match read f with
    | .error e => (σ, .error ("Unable to read file. " ++ f ++ ": " ++ e))
    | .ok text =>
      match step P σ text f with
      | (σ', .error d) => (σ', .error d)
      | (σ', .ok m) =>
        let (q', seen') := enqueue q seen m.skel.imports
        compileAux P read fuel σ' q' seen' (acc ++ [m])

def compile (P : Parser) (read : Reader) (fuel : Nat) (σ : St) (main : String) : St × Outcome :=
  compileAux P read fuel σ [main] [main] []

/-- A history: earlier compilations in the same process, each with its own file set. -/
structure Job where
  read : Reader
  main : String
  fuel : Nat

def runHistory (P : Parser) : St → List Job → St
  | σ, [] => σ
  | σ, j :: r => runHistory P (compile P j.read j.fuel σ j.main).1 r

/-- What every later stage works on: per module, file name, text and numbered IR.  The
passes of `process_ir`, `IrDataSerializer.to_json`, `generate_header` and
`format_errors` are functions of this (they touch no process state: see the regenerated
site list) — `post` below stands for their composition. -/
abbrev View := Except String (List (String × String × List Atom))

instance : DecidableEq View := fun a b =>
  match a, b with
  | .ok x, .ok y => if h : x = y then isTrue (by rw [h]) else isFalse (by intro e; cases e; exact h rfl)
  | .error x, .error y =>
    if h : x = y then isTrue (by rw [h]) else isFalse (by intro e; cases e; exact h rfl)
  | .ok _, .error _ => isFalse (by intro e; cases e)
  | .error _, .ok _ => isFalse (by intro e; cases e)

def Outcome.view : Outcome → View
  | .ok ms => .ok (ms.map fun m => (m.file, m.text, m.atoms))
  | .error d => .error d
  | .outOfFuel => .error "<out of fuel>"

/-- `_find_in_dirs_and_read`: first directory that has the file wins.  `fs d f` is the
content of `d/f` if it exists. -/
def findInDirs (fs : String → String → Option String) (f : String) : List String → Option String
  | [] => none
  | d :: r => match fs d f with
    | some t => some t
    | none => findInDirs fs f r

/-- Renaming of anonymous numbers inside a view. -/
def Atom.rename (ρ : Nat → Nat) : Atom → Atom
  | .lit s => .lit s
  | .anon n => .anon (ρ n)

end Emboss.Purity
