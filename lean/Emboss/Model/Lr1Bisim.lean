/-
Bisimulation checker for two `lr1.Parser` tables (C09): `Bisim A B π` says that the
state pairing `π` (A-state ↦ B-state, found by an unverified BFS in the driver) contains
(0,0), and that paired states take, on *every* symbol, actions of the same kind: Shift to
paired states, Reduce by the same production, Accept, Error with the same code — including
the default-error fallback and "absent ⇒ Error(None)" — and have paired gotos.  All
conjuncts are decidable by instance inference; `bisimB := decide (Bisim A B π)`.
-/
import Emboss.Model.Lr1
namespace Emboss.Lr1

def pairOf (π : Array (Option Nat)) (s : Nat) : Option Nat := (π[s]?).join

def ActRel (A B : Automaton) (π : Array (Option Nat)) : Action → Action → Prop
  | .shift s, .shift t => pairOf π s = some t
  | .reduce i, .reduce j => ∃ p ∈ A.prods[i]?, B.prods[j]? = some p
  | .accept, .accept => True
  | .error c, .error d => c = d
  | _, _ => False

def GotoRel (π : Array (Option Nat)) : Option Nat → Option Nat → Prop
  | some s, some t => pairOf π s = some t
  | none, none => True
  | _, _ => False

def rowKeys : Option Row → List Nat
  | some r => r.map (·.1)
  | none => []

def Automaton.gotoKeys (A : Automaton) (s : Nat) : List Nat := ((A.goto[s]?).getD []).map (·.1)

def PairOK (A B : Automaton) (π : Array (Option Nat)) (s t : Nat) : Prop :=
  (A.strict = true → (A.row s).isSome = true) ∧ (B.strict = true → (B.row t).isSome = true) ∧
  (∀ a ∈ rowKeys (A.row s) ++ rowKeys (B.row t), ActRel A B π (A.actionOf s a) (B.actionOf t a)) ∧
  A.defaultErrors.lookup s = B.defaultErrors.lookup t ∧
  (∀ x ∈ A.gotoKeys s ++ B.gotoKeys t, GotoRel π (A.gotoOf s x) (B.gotoOf t x))

def Bisim (A B : Automaton) (π : Array (Option Nat)) : Prop :=
  A.eoi = B.eoi ∧ pairOf π 0 = some 0 ∧ ∀ s < π.size, ∀ t ∈ pairOf π s, PairOK A B π s t

instance (A B π) : (x y : Action) → Decidable (ActRel A B π x y) := by
  intro x y; cases x <;> cases y <;> unfold ActRel <;> infer_instance
instance (π) : (x y : Option Nat) → Decidable (GotoRel π x y) := by
  intro x y; cases x <;> cases y <;> unfold GotoRel <;> infer_instance
instance (A B π s t) : Decidable (PairOK A B π s t) := by unfold PairOK; infer_instance
instance (A B π) : Decidable (Bisim A B π) := by unfold Bisim; infer_instance

def bisimB (A B : Automaton) (π : Array (Option Nat)) : Bool := decide (Bisim A B π)
theorem bisimB_sound {A B π} (h : bisimB A B π = true) : Bisim A B π := of_decide_eq_true h

/-- Production-set equality (module_ir.PRODUCTIONS vs doc/grammar.md vs cached tables). -/
def SameRules (l₁ l₂ : List Rule) : Prop := (∀ p ∈ l₁, p ∈ l₂) ∧ (∀ p ∈ l₂, p ∈ l₁)
instance (l₁ l₂) : Decidable (SameRules l₁ l₂) := by unfold SameRules; infer_instance
def sameRulesB (l₁ l₂ : List Rule) : Bool := decide (SameRules l₁ l₂)

end Emboss.Lr1
