/-
Model of the fragment of Python's `re` used by compiler/front_end/tokenizer.py
(property C10).  Import-free so that it links into a plain `lean_exe`.

`matchLen r s` mirrors `re.compile(r).match(s)`: leftmost alternative first, greedy
repetition, backtracking into earlier choices when the rest of the pattern fails.
It is written in continuation-passing style: `matchK r s k` matches `r` at the front
of `s` and hands the remaining input to `k`; when `k` fails, the next choice of `r`
is tried.  The first overall success is the answer (that is what a backtracking
engine returns), which is in general *not* the longest match of the pattern.

Repetition takes fuel (`length s + 1`); an iteration that consumes nothing is not
repeated (sre refuses such iterations as well; the generated table is checked to
contain no repetition with a nullable body, so the exact sre behaviour in that corner
is never relied on).  "Out of fuel" is a distinct result (`MRes.fuel`), never
conflated with "no match"; `Emboss/Lemmas/Regex.lean` proves it cannot occur.
-/
namespace Emboss.Regex

/-- Python `str.isspace` / regex `\s` on `str` patterns (`Py_UNICODE_ISSPACE`), as an
explicit list of code points.  The harness compares it with Python on every code
point on every run. -/
def isSpaceNat (n : Nat) : Bool :=
  (9 ≤ n && n ≤ 13) || (28 ≤ n && n ≤ 32) || n == 0x85 || n == 0xa0 || n == 0x1680 ||
  (0x2000 ≤ n && n ≤ 0x200a) || n == 0x2028 || n == 0x2029 || n == 0x202f ||
  n == 0x205f || n == 0x3000

/-- One item of a character class (code points as naturals). -/
inductive CItem where
  /-- `lo-hi`, both ends included; a literal character is `range c c`. -/
  | range (lo hi : Nat)
  /-- `\s` -/
  | space
  deriving DecidableEq, Repr

def CItem.mem : CItem → Nat → Bool
  | .range lo hi, n => lo ≤ n && n ≤ hi
  | .space, n => isSpaceNat n

/-- `[...]` / `[^...]`; a literal is the one-item class; `.` is `[^\n]`. -/
structure CClass where
  neg : Bool
  items : List CItem
  deriving DecidableEq, Repr

def CClass.mem (c : CClass) (x : Char) : Bool :=
  c.neg != c.items.any (fun i => i.mem x.toNat)

inductive Regex where
  | eps
  | chr (c : CClass)
  | seq (a b : Regex)
  | alt (a b : Regex)
  /-- greedy `{mn,mx}`; `mx = none` is unbounded (`*` = `{0,}`, `+` = `{1,}`, `?` = `{0,1}`) -/
  | rep (r : Regex) (mn : Nat) (mx : Option Nat)
  /-- `$` without MULTILINE: end of input, or just before a final `\n` -/
  | eol
  deriving DecidableEq, Repr

/-- Result of a match attempt. -/
inductive MRes where
  | fuel
  | fail
  | ok (n : Nat)
  deriving DecidableEq, Repr

/-- Python's `$`. -/
def atEol (s : List Char) : Bool :=
  match s with
  | [] => true
  | [c] => c.toNat == 10
  | _ => false

/-- Greedy bounded repetition of `body` with backtracking.  One more iteration is tried
first (if `mx` allows and it consumes something); when everything after it fails, the
repetition stops here (allowed once `mn` iterations are done). -/
def repK (body : List Char → (List Char → MRes) → MRes) :
    Nat → Nat → Option Nat → List Char → (List Char → MRes) → MRes
  | 0, _, _, _, _ => .fuel
  | fuel + 1, mn, mx, s, k =>
    if mx = some 0 then (if mn = 0 then k s else .fail)
    else
      match body s (fun rest =>
          if rest.length < s.length then repK body fuel (mn - 1) (mx.map (· - 1)) rest k
          else .fail) with
      | .fail => if mn = 0 then k s else .fail
      | x => x

def matchK : Regex → List Char → (List Char → MRes) → MRes
  | .eps, s, k => k s
  | .chr c, s, k =>
    match s with
    | [] => .fail
    | x :: t => if c.mem x then k t else .fail
  | .seq a b, s, k => matchK a s (fun t => matchK b t k)
  | .alt a b, s, k =>
    match matchK a s k with
    | .fail => matchK b s k
    | x => x
  | .rep r mn mx, s, k => repK (fun t k' => matchK r t k') (s.length + 1) mn mx s k
  | .eol, s, k => if atEol s then k s else .fail

/-- `len(re.compile(r).match(s).group(0))`, or `fail` when `match` returns `None`. -/
def matchLen (r : Regex) (s : List Char) : MRes :=
  matchK r s (fun rest => .ok (s.length - rest.length))

/-- Side condition under which the zero-width-iteration corner of sre is never
reached: no repetition body can match the empty string. -/
def nullable : Regex → Bool
  | .eps => true
  | .chr _ => false
  | .seq a b => nullable a && nullable b
  | .alt a b => nullable a || nullable b
  | .rep r mn _ => mn == 0 || nullable r
  | .eol => true

def wf : Regex → Bool
  | .eps => true
  | .chr _ => true
  | .seq a b => wf a && wf b
  | .alt a b => wf a && wf b
  | .rep r mn mx => wf r && !nullable r && (match mx with | none => true | some m => mn ≤ m)
  | .eol => true

/-- A literal string as a regex (`str.startswith`). -/
def litRegex : List Char → Regex
  | [] => .eps
  | [c] => .chr ⟨false, [.range c.toNat c.toNat]⟩
  | c :: d :: cs => .seq (.chr ⟨false, [.range c.toNat c.toNat]⟩) (litRegex (d :: cs))

end Emboss.Regex
