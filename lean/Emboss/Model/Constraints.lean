/-
Model of the physical-layout and attribute rules of the Emboss front end (property C14):

  compiler/front_end/constraints.py         check_early_constraints, check_constraints
  compiler/front_end/attribute_checker.py   normalize_and_verify
  compiler/util/attribute_util.py           check_attributes_in_ir / _check_attributes /
                                            gather_default_attributes
  compiler/util/ir_util.py                  get_attribute & friends, fixed_size_of_type_in_bits

The input is an *abstract module list* (what the IR looks like just before
`attribute_checker.normalize_and_verify`, i.e. resolved, typed, with the bounds of
`expression_bounds.compute_constants` attached to location sizes); the output is the list
of error kinds `glue.process_ir` would report for the passes above (a pass with errors
stops the pipeline, as in `process_ir`).

The model is structured BY PASS, mirroring the code.  Quirks that are kept:
* `ir_util.get_attribute` ignores the back-end qualifier `(cpp)`;
* `[is_signed: <constant non-literal>]` makes `get_boolean_attribute` miss the attribute, a
  second `is_signed` is added, and the next lookup trips `assert … 'Duplicate attribute'`
  (`EK.crash`);
* `int(field.location.size.type.integer.minimum_value)` raises `ValueError` on
  `"-infinity"`/`"infinity"` (`EK.crash`).
The 64-bit expression-range gate (`_check_bounds_on_runtime_integer_expressions`) is C05's
`Emboss.Bounds.gate`, applied to the annotated top-level expressions of each module.

The passes report their errors IN THE ORDER of the Python: every pass is a sequence of IR
traversals (`traverse_ir.fast_traverse_ir_top_down`), each of which visits all modules, and in
a type definition first the definition itself / its structure or enumeration / its attributes,
then its subtypes, then its runtime parameters (`Forest.walk`).  The per-entity regrouping
(`attrsOfType`, `verifyOfType`, `constraintsOfType`) is kept for the lemmas.

Only imports: the SExpr evaluator, C05's bounds model and the regenerated tables.
-/
import Emboss.Model.SExpr
import Emboss.Model.Bounds
import Emboss.Generated.Reserved
import Emboss.Generated.AttrTable
namespace Emboss.Constraints
open Emboss.Generated

/-! ## Abstract modules -/

/-- A bound of an `IntegerType`: `"-infinity"`, a decimal, or `"infinity"`. -/
inductive Bound where
  | negInf
  | fin (v : Int)
  | posInf
  deriving DecidableEq, Repr

/-- An attribute value, as far as the attribute passes look at it. -/
inductive AVal where
  | str (s : String)                         -- `string_constant`
  | int (v : Option Int)                     -- integer-typed expression; `some` iff constant
  | bool (v : Option Bool) (lit : Bool)      -- boolean-typed; `v` = `type.boolean.value`;
                                             -- `lit` = the expression is a `boolean_constant`
  | req (e : SExpr)                          -- boolean-typed expression kept for evaluation
  | other                                    -- expression of any other type
  deriving DecidableEq, Repr

structure Attr where
  name : String
  backEnd : String          -- "" when unqualified
  isDefault : Bool
  val : AVal
  deriving DecidableEq, Repr

/-- `ir_data.AddressableUnit`. -/
inductive AUnit where
  | none
  | bit
  | byte
  deriving DecidableEq, Repr

def AUnit.bits : AUnit → Int
  | .none => 0
  | .bit => 1
  | .byte => 8

/-- One array dimension. -/
inductive Len where
  | auto                    -- `[]`
  | const (n : Int)         -- `is_constant(element_count)`
  | dyn
  deriving DecidableEq, Repr

/-- `ir_data.Type`: `Name` / `Name:size` or an array of such. -/
inductive Ty where
  | atomic (ref : Nat) (size : Option Int)
  | array (base : Ty) (len : Len)
  deriving DecidableEq, Repr

/-- `which_type` of an expression type, as far as `[requires]` placement cares. -/
inductive VKind where
  | integer
  | enumeration
  | boolean
  | other
  deriving DecidableEq, Repr

structure Field where
  name : String
  isVirtual : Bool          -- no `location`
  ty : Ty                   -- physical fields only
  start : Option Int        -- `constant_value(location.start)`
  sizeConst : Option Int    -- `constant_value(location.size)`
  sizeMin : Bound           -- `location.size.type.integer.minimum_value`
  sizeMax : Bound
  attrs : List Attr
  vkind : VKind             -- virtual fields: kind of `read_transform.type`
  deriving Repr

structure EnumValue where
  name : String
  value : Int
  attrs : List Attr
  deriving Repr

structure Param where
  name : String
  isInt : Bool              -- logical type `integer` (otherwise `enumeration`)
  ref : Nat                 -- `physical_type_alias.atomic_type.reference`
  explicitSize : Option Int -- `physical_type_alias.size_in_bits`
  lo : Bound                -- bounds of the logical integer type (set by type_check)
  hi : Bound
  deriving Repr

inductive Kind where
  | external
  | enum (values : List EnumValue)
  | structure (fields : List Field)
  deriving Repr

structure TypeInfo where
  id : Nat                  -- stands for the canonical name
  name : String
  anonymous : Bool
  unit : AUnit              -- as built by module_ir: BYTE struct, BIT bits/enum, NONE external
  kind : Kind
  attrs : List Attr
  params : List Param
  isFlag : Bool             -- canonical path is `("Flag",)` (hack in type_check)
  deriving Repr

/-- Type definitions with their `subtype`s: first-child / next-sibling encoding. -/
inductive Forest where
  | nil
  | node (t : TypeInfo) (children siblings : Forest)
  deriving Repr

structure Module where
  attrs : List Attr
  types : Forest
  staticRefs : List Bool    -- per `constant_reference` expression: `is_constant_type(type)`
  gated : List (Bool × Emboss.Bounds.ATree) := []
                            -- the outermost expressions the 64-bit gate is called on (not in
                            -- enum values, not in `[static_requirements]`), annotated, in order;
                            -- the flag: the expression is SYNTHETIC (`$size_in_bytes` & co.)
  deriving Repr

abbrev Program := List Module

/-! ## Error kinds -/

inductive EK where
  | paramNeedsSize | paramEnumSized
  | dupAttr (n : String) | noDefault (n : String) | unknownAttr (n : String)
  | attrType (n : String) | attrConst (n : String) | attrChoice (n : String) | attrBackEnds
  | backEndMismatch (b : String)
  | fixedSizeVariable | fixedSizeMismatch
  | maxBitsRange | unitMissing | unitBad
  | boNotAllowed | boRequired | boNull
  | requiresArray | requiresType
  | byteInBits | elemNotFixed | elemNotBytes | innerAuto | innerDyn
  | bitsNotFixed | bitsTooBig
  | explicitMismatch | fixedWrongField | fieldTooSmall
  | enumDynamic | enumWidth | reqNotMet (ty : String)
  | reservedField | reservedEnum | reservedType
  | staticRef | enumValueRange | paramBounds
  | gate (e : Emboss.Bounds.GateErr)
  | crash
  deriving DecidableEq, Repr

/-! ## `ir_util` helpers -/

/-- What `ir_util.get_attribute` (with `back_end=None`) compares: name, `is_default`, and the
back-end qualifier, which must be absent. -/
def Attr.named (a : Attr) (n : String) : Bool :=
  a.name = n ∧ a.isDefault = false ∧ a.backEnd = ""

/-- What `attribute_util.gather_default_attributes` (with `back_end=None`) picks up, restricted
to `byte_order`: the unqualified `$default byte_order`. -/
def Attr.isByteOrderDefault (a : Attr) : Bool :=
  a.isDefault = true ∧ a.name = "byte_order" ∧ a.backEnd = ""

/-- `ir_util.get_attribute`: first unqualified non-default attribute of that name.  (The
Python asserts that there is at most one; `_check_attributes` rejects duplicates before.) -/
def getAttr (attrs : List Attr) (n : String) : Option AVal :=
  (attrs.find? (fun a => a.named n)).map (·.val)

/-- `ir_util.get_integer_attribute`. -/
def getInt (attrs : List Attr) (n : String) : Option Int :=
  match getAttr attrs n with
  | some (.int (some v)) => some v
  | _ => none

/-- What `ir_util.get_boolean_attribute` makes of an attribute value: the value of any
constant boolean expression (`[is_signed: 1 == 1]` is `true`), literal or not. -/
def AVal.boolValue : AVal → Option Bool
  | .bool (some b) _ => some b
  | _ => none

theorem AVal.boolValue_spec {v : AVal} {b : Bool} (h : v.boolValue = some b) :
    ∃ l, v = .bool (some b) l := by
  unfold AVal.boolValue at h
  split at h
  · cases h; exact ⟨_, rfl⟩
  · cases h

/-- `ir_util.get_boolean_attribute`. -/
def getBoolLit (attrs : List Attr) (n : String) : Option Bool :=
  match getAttr attrs n with
  | some v => v.boolValue
  | none => none

def Forest.find (id : Nat) : Forest → Option TypeInfo
  | .nil => none
  | .node t ch sib =>
    if t.id = id then some t
    else match ch.find id with
      | some r => some r
      | none => sib.find id

/-- `ir_util.find_object` for type references. -/
def findType (p : Program) (id : Nat) : Option TypeInfo :=
  p.findSome? (fun m => m.types.find id)

def Ty.isAtomic : Ty → Bool
  | .atomic _ _ => true
  | .array _ _ => false

/-- `ir_util.get_base_type`: (reference, explicit size) of the innermost atomic type. -/
def Ty.leaf : Ty → Nat × Option Int
  | .atomic r s => (r, s)
  | .array b _ => b.leaf

/-! ## Normalisation (`_add_missing_attributes_on_ir`) as effective lookups

The Python adds attributes in place and later passes read them back with
`get_attribute`; the model computes the same effective values by functions. -/

/-- `_add_addressable_unit_to_external`. -/
def effUnit (t : TypeInfo) : AUnit :=
  match t.kind with
  | .external =>
    match getInt t.attrs "addressable_unit_size" with
    | some 1 => .bit
    | some 8 => .byte
    | _ => .none
  | _ => t.unit

def physEnd (f : Field) : Option Int :=
  match f.start, f.sizeConst with
  | some s, some z => some (s + z)
  | _, _ => none

/-- `_fixed_size_of_struct_or_bits`, in addressable units. -/
def structSizeUnits : List Field → Option Int
  | [] => some 0
  | f :: rest =>
    if f.isVirtual then structSizeUnits rest
    else match physEnd f, structSizeUnits rest with
      | some e, some r => some (if e ≥ r then e else r)
      | _, _ => none

def structFixedSize (t : TypeInfo) (fields : List Field) : Option Int :=
  (structSizeUnits fields).map (· * t.unit.bits)

/-- The `fixed_size_in_bits` later passes see: the written attribute, else (structures) the
inferred one. -/
def effFixedSize (t : TypeInfo) : Option Int :=
  match getAttr t.attrs "fixed_size_in_bits" with
  | some v => (match v with | .int (some n) => some n | _ => none)
  | none =>
    match t.kind with
    | .structure fields => structFixedSize t fields
    | _ => none

/-- `maximum_bits` after `_add_missing_width_and_sign_attributes_on_enum`. -/
def effMaxBits (t : TypeInfo) : Int :=
  match getInt t.attrs "maximum_bits" with
  | some n => n
  | none => AttrTable.defaultEnumMaximumBits

/-- `is_signed` after defaulting: `none` = the lookup would trip the duplicate assert. -/
def effSigned (t : TypeInfo) (values : List EnumValue) : Option Bool :=
  match getAttr t.attrs "is_signed" with
  | none => some (values.any (fun v => v.value < 0))
  | some v => v.boolValue

/-- `ir_util.fixed_size_of_type_in_bits` of an atomic type. -/
def leafFixedSize (p : Program) (leaf : Nat × Option Int) : Option Int :=
  match leaf.2 with
  | some s => some s
  | none =>
    match findType p leaf.1 with
    | some t => effFixedSize t
    | none => none

/-! ## Pass 1: `constraints.check_early_constraints` -/

def earlyParam (q : Param) : List EK :=
  if q.isInt then
    (if q.explicitSize.isNone then [.paramNeedsSize] else [])
  else
    (if q.explicitSize.isSome then [.paramEnumSized] else [])

/-! ## Enumerating the IR -/

/-- `attribute_util.gather_default_attributes`, restricted to `byte_order` (the only
defaultable front-end attribute that is ever read back). -/
def gatherDefault (attrs : List Attr) (cur : Option AVal) : Option AVal :=
  attrs.foldl (fun d a => if a.isByteOrderDefault then some a.val else d) cur

/-- Every type definition of a forest (preorder), each with the `$default byte_order` in
effect for its fields (its own `$default` included). -/
def Forest.ctxs (d : Option AVal) : Forest → List (Option AVal × TypeInfo)
  | .nil => []
  | .node t ch sib =>
    let d' := gatherDefault t.attrs d
    (d', t) :: (ch.ctxs d' ++ sib.ctxs d)

def Module.ctxs (m : Module) : List (Option AVal × TypeInfo) :=
  m.types.ctxs (gatherDefault m.attrs none)

def allTypes (p : Program) : List (Option AVal × TypeInfo) :=
  p.flatMap Module.ctxs

/-- What a traversal does at one type definition (given the `$default byte_order` in effect). -/
abbrev Visit := Option AVal → TypeInfo → List EK

def noVisit : Visit := fun _ _ => []

/-- One `fast_traverse_ir_top_down` over the type definitions of a module, in its order: at a
definition first `pre` (the definition itself and its singular members `structure` /
`enumeration`, its `attribute`s), then the `subtype`s, then `post` (`runtime_parameter` comes
after `subtype`), then the following definitions.  `$default`s are threaded as in
`Forest.ctxs`. -/
def Forest.walk (pre post : Visit) (d : Option AVal) : Forest → List EK
  | .nil => []
  | .node t ch sib =>
    let d' := gatherDefault t.attrs d
    pre d' t ++ ch.walk pre post d' ++ post d' t ++ sib.walk pre post d

/-- One traversal of the whole IR (all modules, in order). -/
def trav (p : Program) (pre post : Visit) : List EK :=
  p.flatMap (fun m => m.types.walk pre post (gatherDefault m.attrs none))

def TypeInfo.fields (t : TypeInfo) : List Field :=
  match t.kind with
  | .structure fs => fs
  | _ => []

def TypeInfo.values (t : TypeInfo) : List EnumValue :=
  match t.kind with
  | .enum vs => vs
  | _ => []

/-! ## Pass 2a: `attribute_util.check_attributes_in_ir` -/

def isWs (c : Char) : Bool :=
  c = ' ' ∨ c = '\t' ∨ c = '\n' ∨ c = '\r' ∨ c = '\x0b' ∨ c = '\x0c'

def isIdentStart (c : Char) : Bool := 'a' ≤ c ∧ c ≤ 'z'
def isIdentRest (c : Char) : Bool := ('a' ≤ c ∧ c ≤ 'z') ∨ ('0' ≤ c ∧ c ≤ '9') ∨ c = '_'

def dropWs (cs : List Char) : List Char := cs.dropWhile isWs

/-- `\s*[a-z][a-z0-9_]*\s*` matches the whole list. -/
def isSpec (cs : List Char) : Bool :=
  match dropWs cs with
  | [] => false
  | c :: rest => isIdentStart c && (dropWs (rest.dropWhile isIdentRest)).isEmpty

def splitOnComma (cs : List Char) : List (List Char) :=
  cs.foldr (fun c acc =>
    if c = ',' then [] :: acc
    else match acc with
      | [] => [[c]]
      | h :: t => (c :: h) :: t) [[]]

/-- `re.fullmatch(r"(?:\s*[a-z][a-z0-9_]*\s*(?:,\s*[a-z][a-z0-9_]*\s*)*,?)?\s*", s)`. -/
def validBackEnds (s : String) : Bool :=
  let parts := splitOnComma s.toList
  match parts.reverse with
  | [] => true
  | [only] => (dropWs only).isEmpty || isSpec only
  | last :: initRev => initRev.all isSpec && ((dropWs last).isEmpty || isSpec last)

def checkAttrType (a : Attr) : List EK :=
  match AttrTable.attrTypes.lookup a.name with
  | none => [.crash]                         -- `types[attr.name.text]` KeyError
  | some .intConst =>
    (match a.val with
     | .int (some _) => []
     | .int none => [.attrConst a.name]
     | _ => [.attrType a.name])
  | some .boolConst =>
    (match a.val with
     | .bool (some _) _ => []
     | _ => [.attrType a.name])
  | some .bool =>
    (match a.val with
     | .bool _ _ => []
     | .req _ => []
     | _ => [.attrType a.name])
  | some .str =>
    (match a.val with
     | .str _ => []
     | _ => [.attrType a.name])
  | some (.choice vs) =>
    (match a.val with
     | .str s => if s ∈ vs then [] else [.attrChoice a.name]
     | _ => [.attrChoice a.name])            -- reader(attr).value.string_constant.text = ""
  | some .backEnds =>
    (match a.val with
     | .str s => if validBackEnds s then [] else [.attrBackEnds]
     | _ => [.attrType a.name])              -- `attribute_util.STRING` runs first
  | some .unknownChecker => [.crash]

/- Note on `checkAttrType`: for a value of the wrong *kind* the validators `_is_constant_boolean`
(non-boolean expression) and `_valid_back_ends` (non-string) return the type error (since the
`fix:` commits 74b10f8 / d07ebca; before them they raised AttributeError — the pinned inputs are
in corpus/C14/fixed-*.json and are compared like every other case). -/

/-- `_check_attributes` with `back_end=None`: qualified attributes are skipped; `seen` is
`already_seen_attributes`. -/
def checkAttrList (specs : List (String × Bool)) (seen : List (String × Bool)) :
    List Attr → List EK
  | [] => []
  | a :: rest =>
    if a.backEnd ≠ "" then checkAttrList specs seen rest
    else
      let key := (a.name, a.isDefault)
      if key ∈ seen then .dupAttr a.name :: checkAttrList specs seen rest
      else
        (if key ∈ specs then checkAttrType a
         else if a.isDefault then [.noDefault a.name] else [.unknownAttr a.name])
        ++ checkAttrList specs (key :: seen) rest

def typeSpecs (t : TypeInfo) : List (String × Bool) :=
  match t.kind with
  | .external => AttrTable.externalAttrs
  | .enum _ => AttrTable.enumAttrs
  | .structure _ =>
    match t.unit with
    | .byte => AttrTable.structAttrs
    | .bit => AttrTable.bitsAttrs
    | .none => []

def fieldSpecs (f : Field) : List (String × Bool) :=
  if f.isVirtual then AttrTable.virtualFieldAttrs else AttrTable.physicalFieldAttrs

def attrsOfType (t : TypeInfo) : List EK :=
  checkAttrList (typeSpecs t) [] t.attrs
  ++ t.fields.flatMap (fun f => checkAttrList (fieldSpecs f) [] f.attrs)
  ++ t.values.flatMap (fun v => checkAttrList AttrTable.enumValueAttrs [] v.attrs)

/-- Per-entity regrouping of `passAttrs` (lemmas). -/
def attrsByEntity (p : Program) : List EK :=
  p.flatMap (fun m => checkAttrList AttrTable.moduleAttrs [] m.attrs)
  ++ (allTypes p).flatMap (fun c => attrsOfType c.2)

/-- `check_attributes_in_ir`: four traversals (`Module`, `TypeDefinition`, `Field`,
`EnumValue`). -/
def passAttrs (p : Program) : List EK :=
  p.flatMap (fun m => checkAttrList AttrTable.moduleAttrs [] m.attrs)
  ++ trav p (fun _ t => checkAttrList (typeSpecs t) [] t.attrs) noVisit
  ++ trav p (fun _ t => t.fields.flatMap (fun f => checkAttrList (fieldSpecs f) [] f.attrs)) noVisit
  ++ trav p (fun _ t => t.values.flatMap (fun v => checkAttrList AttrTable.enumValueAttrs [] v.attrs))
       noVisit

/-! ## Pass 2b: `_verify_attributes_on_ir` (after `_add_missing_attributes_on_ir`) -/

/-- `_gather_expected_back_ends`: `{x.strip() for x in text.split(",")} | {""}`. -/
def expectedBackEnds (m : Module) : List String :=
  let text := match getAttr m.attrs "expected_back_ends" with
    | some (.str s) => s
    | _ => AttrTable.defaultBackEnds
  "" :: (splitOnComma text.toList).map (fun cs => String.ofList (dropWs (dropWs cs).reverse).reverse)

def backEndErrs (exp : List String) (attrs : List Attr) : List EK :=
  attrs.flatMap (fun a => if a.backEnd ∈ exp then [] else [.backEndMismatch a.backEnd])

/-- Traversal `[Attribute]` inside one type definition: the attributes of its fields / enum
values (`structure`, `enumeration` are singular members, visited first), then its own. -/
def backEndsOfType (exp : List String) (t : TypeInfo) : List EK :=
  t.fields.flatMap (fun f => backEndErrs exp f.attrs)
  ++ t.values.flatMap (fun v => backEndErrs exp v.attrs)
  ++ backEndErrs exp t.attrs

def verifyBackEnds (m : Module) : List EK :=
  let exp := expectedBackEnds m
  backEndErrs exp m.attrs
  ++ m.types.walk (fun _ t => backEndsOfType exp t) noVisit (gatherDefault m.attrs none)

/-- `_verify_size_attributes_on_structure`. -/
def verifySize (t : TypeInfo) : List EK :=
  match t.kind with
  | .structure fields =>
    (match getAttr t.attrs "fixed_size_in_bits" with
     | none => []
     | some v =>
       match structFixedSize t fields with
       | none => [.fixedSizeVariable]
       | some sz => if v = .int (some sz) then [] else [.fixedSizeMismatch])
  | _ => []

/-- `_verify_width_attribute_on_enum`. -/
def verifyEnumWidth (t : TypeInfo) : List EK :=
  match t.kind with
  | .enum _ => if effMaxBits t > 64 ∨ effMaxBits t < 1 then [.maxBitsRange] else []
  | _ => []

/-- `_verify_addressable_unit_attribute_on_external`. -/
def verifyUnit (t : TypeInfo) : List EK :=
  match t.kind with
  | .external =>
    (match getInt t.attrs "addressable_unit_size" with
     | none => [.unitMissing]
     | some n => if n = 1 ∨ n = 8 then [] else [.unitBad])
  | _ => []

/-- `_field_needs_byte_order` (`none` = dangling reference, the Python asserts). -/
def needsByteOrder (p : Program) (t : TypeInfo) (f : Field) : Option Bool :=
  if f.isVirtual then some false
  else match findType p f.ty.leaf.1 with
    | some ft => some (decide (effUnit ft ≠ effUnit t))
    | none => none

/-- `_field_may_have_null_byte_order`. -/
def mayNull (p : Program) (t : TypeInfo) (f : Field) : Bool :=
  f.sizeConst = some 1 ∨ leafFixedSize p f.ty.leaf = some (effUnit t).bits

/-- The `byte_order` attribute of a field after `_add_missing_byte_order_attribute_on_field`:
its own; else (if it needs one) the `$default` in effect; else (if allowed) `"Null"`. -/
def effByteOrder (p : Program) (d : Option AVal) (t : TypeInfo) (f : Field) : Option AVal :=
  match getAttr f.attrs "byte_order" with
  | some v => some v
  | none =>
    if needsByteOrder p t f = some true then
      match d with
      | some v => some v
      | none => if mayNull p t f then some (.str "Null") else none
    else none

/-- `_verify_byte_order_attribute_on_field`. -/
def verifyByteOrder (p : Program) (d : Option AVal) (t : TypeInfo) (f : Field) : List EK :=
  match needsByteOrder p t f with
  | none => [.crash]
  | some needs =>
    let bo := effByteOrder p d t f
    (if bo.isSome ∧ needs = false then [.boNotAllowed] else [])
    ++ (if bo.isNone ∧ needs = true then [.boRequired] else [])
    ++ (if bo = some (.str "Null") ∧ mayNull p t f = false then [.boNull] else [])

/-- `type_check.unbounded_expression_type_for_physical_type`. -/
def physKind (t : TypeInfo) : VKind :=
  if getBoolLit t.attrs "is_integer" = some true then .integer
  else if t.isFlag then .boolean
  else match t.kind with
    | .enum _ => .enumeration
    | _ => .other

/-- `_verify_requires_attribute_on_field`. -/
def verifyRequires (p : Program) (f : Field) : List EK :=
  match getAttr f.attrs "requires" with
  | none => []
  | some _ =>
    if f.isVirtual then (if f.vkind = .other then [.requiresType] else [])
    else match f.ty with
      | .array _ _ => [.requiresArray]
      | .atomic r _ =>
        match findType p r with
        | none => [.crash]
        | some ft => if physKind ft = .other then [.requiresType] else []

def verifyOfType (p : Program) (c : Option AVal × TypeInfo) : List EK :=
  verifySize c.2 ++ verifyEnumWidth c.2 ++ verifyUnit c.2
  ++ c.2.fields.flatMap (fun f => verifyByteOrder p c.1 c.2 f ++ verifyRequires p f)

/-- Per-entity regrouping of `passVerify` (lemmas). -/
def verifyByEntity (p : Program) : List EK :=
  p.flatMap verifyBackEnds ++ (allTypes p).flatMap (verifyOfType p)

/-- `_verify_attributes_on_ir`: five traversals (`Attribute`, `Structure`, `Enum`, `External`,
`Field`). -/
def passVerify (p : Program) : List EK :=
  p.flatMap verifyBackEnds
  ++ trav p (fun _ t => verifySize t) noVisit
  ++ trav p (fun _ t => verifyEnumWidth t) noVisit
  ++ trav p (fun _ t => verifyUnit t) noVisit
  ++ trav p (fun d t => t.fields.flatMap (fun f => verifyByteOrder p d t f ++ verifyRequires p f))
       noVisit

/-- The byte order every physical field carries after `_add_missing_attributes_on_ir`
(type id, field name, value), in traversal order. -/
def fieldByteOrders (p : Program) : List (Nat × String × Option AVal) :=
  (allTypes p).flatMap (fun c =>
    c.2.fields.flatMap (fun f =>
      if f.isVirtual then [] else [(c.2.id, f.name, effByteOrder p c.1 c.2 f)]))

/-! ## Pass 3: `constraints.check_constraints` -/

/-- `_check_allowed_in_bits` on the atomic leaf of a field's type. -/
def allowedInBits (p : Program) (t : TypeInfo) (f : Field) : List EK :=
  match findType p f.ty.leaf.1 with
  | none => [.crash]
  | some rt =>
    if (effUnit rt).bits = 0 then [.crash]       -- `% 0`
    else if (effUnit t).bits % (effUnit rt).bits ≠ 0 then [.byteInBits] else []

/-- The three array traversals: `_check_that_array_base_types_are_fixed_size`,
`…_in_structs_are_multiples_of_bytes` (both on the innermost array level) and
`_check_that_inner_array_dimensions_are_constant` (on every array nested in an array).
`outer = true` for the outermost dimension. -/
def arrayChecks (p : Program) (t : TypeInfo) (outer : Bool) : Ty → List EK
  | .atomic _ _ => []
  | .array base len =>
    (if outer then []
     else match len with
       | .auto => [.innerAuto]
       | .dyn => [.innerDyn]
       | .const _ => [])
    ++ (match base with
        | .atomic r s =>
          (match leafFixedSize p (r, s) with
           | none => [.elemNotFixed]
           | some sz => if sz % (effUnit t).bits ≠ 0 then [.elemNotBytes] else [])
        | .array _ _ => [])
    ++ arrayChecks p t false base

/-- `_check_that_array_base_types_are_fixed_size` over the array levels of a type (traversal
`[ArrayType]`; only the innermost level acts). -/
def elemFixed (p : Program) : Ty → List EK
  | .atomic _ _ => []
  | .array base _ =>
    (match base with
     | .atomic r s => if (leafFixedSize p (r, s)).isNone then [.elemNotFixed] else []
     | .array _ _ => [])
    ++ elemFixed p base

/-- `_check_that_array_base_types_in_structs_are_multiples_of_bytes` (traversal
`[Structure, ArrayType]`). -/
def elemBytes (p : Program) (t : TypeInfo) : Ty → List EK
  | .atomic _ _ => []
  | .array base _ =>
    (match base with
     | .atomic r s =>
       (match leafFixedSize p (r, s) with
        | none => []
        | some sz => if sz % (effUnit t).bits ≠ 0 then [.elemNotBytes] else [])
     | .array _ _ => [])
    ++ elemBytes p t base

/-- `_check_that_inner_array_dimensions_are_constant` (traversal `[ArrayType, ArrayType]`:
every array level below the outermost). -/
def innerDims (outer : Bool) : Ty → List EK
  | .atomic _ _ => []
  | .array base len =>
    (if outer then []
     else match len with
       | .auto => [.innerAuto]
       | .dyn => [.innerDyn]
       | .const _ => [])
    ++ innerDims false base

/-- `_check_size_of_bits`. -/
def sizeOfBits (t : TypeInfo) : List EK :=
  match t.kind with
  | .structure _ =>
    if t.unit = .bit then
      match effFixedSize t with
      | none => [.bitsNotFixed]
      | some n => if n > 64 then [.bitsTooBig] else []
    else []
  | _ => []

/-- `_check_physical_type_requirements`. -/
def physReq (rt : TypeInfo) (size : Option Int) : List EK :=
  let enumErr : List EK :=
    match rt.kind with
    | .enum _ =>
      (match size with
       | none => [.enumDynamic]
       | some s => if s < 1 ∨ s > effMaxBits rt then [.enumWidth] else [])
    | _ => []
  if enumErr ≠ [] then enumErr
  else match getAttr rt.attrs "static_requirements" with
    | some (.req e) => if reqMet e size then [] else [.reqNotMet rt.name]
    | some _ => [.reqNotMet rt.name]
    | none => []

def Bound.fin? : Bound → Option Int
  | .fin v => some v
  | _ => none

/-- `_check_type_requirements_for_field` on a scalar field one of whose size bounds is
`"-infinity"`/`"infinity"` (`unit`: bits per addressable unit; `explicit`: the `:n` of the type;
`typeSize`: the type's fixed size).  The infinite bound is compared as such
(`_size_bound_in_bits` returns `float("±infinity")`): minimum and maximum are never equal, no
fixed-size type is bigger than an infinite maximum, and the type's requirements are checked
with its own size (if any).  The unbounded size itself is reported by the 64-bit gate. -/
def typeReqUnbounded (rt : TypeInfo) (unit : Int) (_mn mx : Bound)
    (explicit typeSize : Option Int) : List EK :=
  let tooBig (e : Int) : Bool :=
    match mx with
    | .fin v => e > v * unit
    | .posInf => false
    | .negInf => true
  match explicit, typeSize with
  | some e, some ts =>
    if e ≠ ts then [.explicitMismatch] else if tooBig e then [.fieldTooSmall] else physReq rt (some e)
  | some e, none => if tooBig e then [.fieldTooSmall] else physReq rt (some e)
  | none, some e => if tooBig e then [.fieldTooSmall] else physReq rt (some e)
  | none, none => physReq rt none

/-- `_check_type_requirements_for_field`, on the atomic leaf of the field's type. -/
def typeReq (p : Program) (t : TypeInfo) (f : Field) : List EK :=
  let leaf := f.ty.leaf
  match findType p leaf.1 with
  | none => [.crash]
  | some rt =>
    let unit := (effUnit t).bits
    let typeSize := effFixedSize rt
    if f.ty.isAtomic then
      match f.sizeMin.fin?, f.sizeMax.fin? with
      | some mn, some mx =>
        let fmin := mn * unit
        let fmax := mx * unit
        (match leaf.2, typeSize with
         | some e, some ts =>
           if e ≠ ts then [.explicitMismatch] else
             (if fmax = fmin ∧ (e > fmax ∨ (e < fmin ∧ rt.anonymous = false)) then [.fixedWrongField]
              else if e > fmax then [.fieldTooSmall]
              else physReq rt (some e))
         | some e, none =>
           (if fmax = fmin ∧ (e > fmax ∨ (e < fmin ∧ rt.anonymous = false)) then [.fixedWrongField]
            else if e > fmax then [.fieldTooSmall]
            else physReq rt (some e))
         | none, some e =>
           (if fmax = fmin ∧ (e > fmax ∨ (e < fmin ∧ rt.anonymous = false)) then [.fixedWrongField]
            else if e > fmax then [.fieldTooSmall]
            else physReq rt (some e))
         | none, none =>
           physReq rt (if fmin = fmax then some fmin else none))
      | _, _ => typeReqUnbounded rt unit f.sizeMin f.sizeMax leaf.2 typeSize
    else
      match leaf.2, typeSize with
      | some e, some ts => if e ≠ ts then [.explicitMismatch] else physReq rt (some e)
      | some e, none => physReq rt (some e)
      | none, ts => physReq rt ts

def isReserved (n : String) : Bool :=
  (Reserved.reservedWords.lookup n).isSome

/-- `_check_that_enum_values_are_representable`. -/
def enumValues (t : TypeInfo) : List EK :=
  match t.kind with
  | .enum values =>
    (match effSigned t values with
     | none => [.crash]
     | some signed =>
       let mb := effMaxBits t
       -- after `passVerify`, 1 ≤ mb ≤ 64; `2 ** negative` would give a float in Python
       let (lo, hi) : Int × Int :=
         if signed then (-(2 ^ (mb - 1).toNat), 2 ^ (mb - 1).toNat - 1) else (0, 2 ^ mb.toNat - 1)
       values.flatMap (fun v => if lo ≤ v.value ∧ v.value ≤ hi then [] else [.enumValueRange]))
  | _ => []

/-- `_integer_bounds_errors` (kind only). -/
def boundsFit (lo hi : Bound) : Bool :=
  match lo, hi with
  | .fin a, .fin b => (0 ≤ a ∧ b ≤ 2 ^ 64 - 1) ∨ (-(2 ^ 63) ≤ a ∧ b ≤ 2 ^ 63 - 1)
  | _, _ => false

/-- `_check_type_requirements_for_parameter_type`. -/
def paramReq (p : Program) (q : Param) : List EK :=
  if q.isInt then
    if boundsFit q.lo q.hi then
      match findType p q.ref with
      | none => [.crash]
      | some rt => physReq rt q.explicitSize
    else [.paramBounds]
  else []

/-- Everything `check_constraints` reports about one field. -/
def fieldConstraints (p : Program) (t : TypeInfo) (f : Field) : List EK :=
  if f.isVirtual then (if isReserved f.name then [.reservedField] else [])
  else allowedInBits p t f ++ arrayChecks p t true f.ty ++ typeReq p t f
       ++ (if isReserved f.name then [.reservedField] else [])

def constraintsOfType (p : Program) (c : Option AVal × TypeInfo) : List EK :=
  let t := c.2
  t.fields.flatMap (fieldConstraints p t)
  ++ sizeOfBits t
  ++ t.values.flatMap (fun v => if isReserved v.name then [.reservedEnum] else [])
  ++ (if isReserved t.name then [.reservedType] else [])
  ++ enumValues t
  ++ t.params.flatMap (paramReq p)

/-- `_check_bounds_on_runtime_integer_expressions` on the gated expressions of a module
(`none` = `int("infinity")` raises inside the gate).  `glue.process_ir` splits the errors of a
pass (`error.split_errors`): those located in synthetic IR (`syn = true`) are deferred and only
shown if no pass reports a user-visible error. -/
def gateErrs (syn : Bool) (m : Module) : List EK :=
  m.gated.flatMap (fun g =>
    if g.1 = syn then
      match Emboss.Bounds.gate g.2 with
      | none => [.crash]
      | some es => es.map .gate
    else [])

def staticRefErrs (m : Module) : List EK :=
  m.staticRefs.flatMap (fun b => if b then [] else [.staticRef])

/-- Per-entity regrouping of `passConstraints` (lemmas). -/
def constraintsByEntity (p : Program) : List EK :=
  (allTypes p).flatMap (constraintsOfType p)
  ++ p.flatMap staticRefErrs
  ++ p.flatMap (gateErrs false)

/-- Apply `g` to the physical fields of `t`. -/
def onPhys (t : TypeInfo) (g : Field → List EK) : List EK :=
  t.fields.flatMap (fun f => if f.isVirtual then [] else g f)

/-- `check_constraints`: thirteen traversals, in this order. -/
def passConstraints (p : Program) : List EK :=
  trav p (fun _ t => onPhys t (allowedInBits p t)) noVisit                  -- [Structure, Type]
  ++ trav p (fun _ t => onPhys t (fun f => elemFixed p f.ty)) noVisit        -- [ArrayType]
  ++ trav p (fun _ t => onPhys t (fun f => elemBytes p t f.ty)) noVisit      -- [Structure, ArrayType]
  ++ trav p (fun _ t => onPhys t (fun f => innerDims true f.ty)) noVisit     -- [ArrayType, ArrayType]
  ++ trav p (fun _ t => sizeOfBits t) noVisit                               -- [Structure]
  ++ trav p (fun _ t => onPhys t (typeReq p t)) noVisit                     -- [Structure, Type]
  ++ trav p (fun _ t => t.fields.flatMap
       (fun f => if isReserved f.name then [.reservedField] else [])) noVisit -- [Field]
  ++ trav p (fun _ t => t.values.flatMap
       (fun v => if isReserved v.name then [.reservedEnum] else [])) noVisit  -- [EnumValue]
  ++ trav p (fun _ t => if isReserved t.name then [.reservedType] else []) noVisit -- [TypeDefinition]
  ++ p.flatMap staticRefErrs                                                -- [Expression]
  ++ trav p (fun _ t => enumValues t) noVisit                               -- [Enum]
  ++ p.flatMap (gateErrs false)                                             -- [Expression], gate
  ++ trav p noVisit (fun _ t => t.params.flatMap (paramReq p))              -- [RuntimeParameter]

/-- Per-entity regrouping of `passEarly` (lemmas). -/
def earlyByEntity (p : Program) : List EK :=
  (allTypes p).flatMap (fun c => c.2.params.flatMap earlyParam)

/-- `check_early_constraints`: one traversal `[RuntimeParameter]`. -/
def passEarly (p : Program) : List EK :=
  trav p noVisit (fun _ t => t.params.flatMap earlyParam)

/-- The deferred (synthetic-location) errors of `check_constraints`. -/
def passDeferred (p : Program) : List EK :=
  p.flatMap (gateErrs true)

/-- The four passes in `process_ir` order; a pass that reports (user-visible) errors ends the
pipeline; the deferred ones are reported at the end. -/
def check (p : Program) : List EK :=
  let e := passEarly p
  if e ≠ [] then e else
  let a := passAttrs p
  if a ≠ [] then a else
  let v := passVerify p
  if v ≠ [] then v else
  let c := passConstraints p
  if c ≠ [] then c else
  passDeferred p

end Emboss.Constraints
