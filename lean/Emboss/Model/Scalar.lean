/-
Executable model of the scalar views of the Emboss C++ runtime:
`MemoryAccessor` (byte loops and the memcpy + `ByteSwap` path), `ContiguousBuffer`,
`{Little,Big}EndianByteOrderer`/`NullByteOrderer`, `BitBlock`, `OffsetBitBlock`
(`runtime/cpp/emboss_memory_util.h`), `UIntView`, `IntView`, `BcdView`, `FlagView`,
`FloatView` (`emboss_prelude.h`) and `EnumView` (`emboss_enum_view.h`).

The model mirrors what the code does, quirks included (e.g. `EnumView::Read` is a plain
`static_cast`, which zero-extends a field narrower than the enum's underlying type, and
`EnumView::CouldWriteValue` compares the *unsigned* image of the value with `2^kBits`).

Shared module (owner: C02/C03).  Imports only `Emboss.Model.Bits`.
-/
import Emboss.Model.Bits
namespace Emboss.Scalar
open Emboss.Bits

inductive ByteOrder | little | big | null
  deriving DecidableEq, Repr

/-- Which of the two runtime code paths is compiled: `opt` = default (memcpy + byte swap
builtins, `EMBOSS_SYSTEM_IS_TWOS_COMPLEMENT` = 1), `noopt` = `-DEMBOSS_NO_OPTIMIZATIONS`
(portable byte loops, portable sign conversion). -/
inductive Path | opt | noopt
  deriving DecidableEq, Repr

/-! ### MemoryAccessor<CharT, 1, 0, kBits> -/

/-- Byte loop of `ReadLittleEndianUInt`: `result |= Unsigned(byte) << i * 8`. -/
def readLEAux (W : Nat) : List Nat → Nat → Nat → Nat
  | [], _, r => r
  | b :: bs, i, r => readLEAux W bs (i + 1) (wrap W (r ||| shl (arithW W) b (i * 8)))

def readLELoop (kBits : Nat) (bytes : List Nat) : Nat :=
  readLEAux (leastWidth kBits) bytes 0 0

/-- Byte loop of `ReadBigEndianUInt`: `result |= Unsigned(byte) << (kBits - 8 - i * 8)`. -/
def readBEAux (W kBits : Nat) : List Nat → Nat → Nat → Nat
  | [], _, r => r
  | b :: bs, i, r =>
    readBEAux W kBits bs (i + 1) (wrap W (r ||| shl (arithW W) b (kBits - 8 - i * 8)))

def readBELoop (kBits : Nat) (bytes : List Nat) : Nat :=
  readBEAux (leastWidth kBits) kBits bytes 0 0

/-- memcpy path of `ReadLittleEndianUInt`: `result = 0; memcpy(&result, bytes, kBits/8);
EMBOSS_LITTLE_ENDIAN_TO_NATIVE(result)` (identity on the little-endian host). -/
def readLEMemcpy (kBits : Nat) (bytes : List Nat) : Nat :=
  nativeLoad (bytes ++ List.replicate (leastWidth kBits / 8 - kBits / 8) 0)

/-- memcpy path of `ReadBigEndianUInt`: copy into the *last* `kBits/8` bytes of a zeroed
`Unsigned`, then `ByteSwap`. -/
def readBEMemcpy (kBits : Nat) (bytes : List Nat) : Nat :=
  byteSwap (leastWidth kBits)
    (nativeLoad (List.replicate (leastWidth kBits / 8 - kBits / 8) 0 ++ bytes))

/-- Byte loop of `WriteLittleEndianUInt`: `bytes[i] = uint8(value); value >>= 8`. -/
def writeLELoop : Nat → Nat → List Nat
  | 0, _ => []
  | n + 1, v => wrap 8 v :: writeLELoop n (v >>> 8)

/-- Byte loop of `WriteBigEndianUInt`: `bytes[kBits/8 - 1 - i] = uint8(value); value >>= 8`. -/
def writeBELoop (n v : Nat) : List Nat := (writeLELoop n v).reverse

def writeLEMemcpy (kBits v : Nat) : List Nat :=
  (nativeStore (leastWidth kBits / 8) v).take (kBits / 8)

def writeBEMemcpy (kBits v : Nat) : List Nat :=
  (nativeStore (leastWidth kBits / 8) (byteSwap (leastWidth kBits) v)).drop
    (leastWidth kBits / 8 - kBits / 8)

def loadLE (p : Path) (kBits : Nat) (bytes : List Nat) : Nat :=
  match p with
  | .opt => readLEMemcpy kBits bytes
  | .noopt => readLELoop kBits bytes

def loadBE (p : Path) (kBits : Nat) (bytes : List Nat) : Nat :=
  match p with
  | .opt => readBEMemcpy kBits bytes
  | .noopt => readBELoop kBits bytes

def storeLE (p : Path) (kBits v : Nat) : List Nat :=
  match p with
  | .opt => writeLEMemcpy kBits v
  | .noopt => writeLELoop (kBits / 8) v

def storeBE (p : Path) (kBits v : Nat) : List Nat :=
  match p with
  | .opt => writeBEMemcpy kBits v
  | .noopt => writeBELoop (kBits / 8) v

/-! ### BitBlock<ByteOrderer<ContiguousBuffer>, c> -/

/-- A `BitBlock<…, c>` over a buffer holding `bytes` (a non-null pointer). -/
structure BitBlock where
  order : ByteOrder
  path : Path
  c : Nat
  bytes : List Nat
  deriving Repr

namespace BitBlock

/-- `LeastWidthInteger<c>::Unsigned`. -/
def W (b : BitBlock) : Nat := leastWidth b.c

/-- `buffer_.Ok() && buffer_.SizeInBytes() * 8 == kBufferSizeInBits`.  Every byte orderer
forwards `SizeInBytes()` to the underlying buffer (`NullByteOrderer` too, since the repair
`fix: … one-byte field without byte order report its real storage size`; before it
answered 1 for every non-null buffer). -/
def ok (b : BitBlock) : Bool :=
  b.bytes.length * 8 == b.c

/-- `ReadUInt()`.  `none`: `EMBOSS_CHECK_EQ(SizeInBytes() * 8, kBits)` of
`ContiguousBuffer::Read…UInt` fails. -/
def readUInt (b : BitBlock) : Option Nat :=
  if b.bytes.length * 8 ≠ b.c then none
  else match b.order with
    | .little => some (loadLE b.path b.c b.bytes)
    | .big => some (loadBE b.path b.c b.bytes)
    | .null => some (loadLE b.path b.c b.bytes)

/-- `WriteUInt(value)`; `none`: a runtime check fails
(`value == MaskToNBits(value, c)` or the buffer size check). -/
def writeUInt (b : BitBlock) (v : Nat) : Option BitBlock :=
  if b.bytes.length * 8 ≠ b.c ∨ v ≠ maskToNBits b.W v b.c then none
  else match b.order with
    | .little => some { b with bytes := storeLE b.path b.c v }
    | .big => some { b with bytes := storeBE b.path b.c v }
    | .null => some { b with bytes := storeBE b.path b.c v }

end BitBlock

/-! ### OffsetBitBlock -/

structure OffsetBitBlock where
  bb : BitBlock
  offset : Nat   -- uint8_t offset_
  size : Nat     -- uint8_t size_
  okFlag : Bool
  deriving Repr

/-- `BitBlock::GetOffsetStorage(offset, size)` followed by the `OffsetBitBlock` constructor
(members are `uint8_t`; `ok_` records that nothing was truncated). -/
def BitBlock.offsetStorage (b : BitBlock) (offset size : Nat) : OffsetBitBlock :=
  let ok := b.ok && decide (offset + size ≤ b.c)
  { bb := b, offset := wrap 8 offset, size := wrap 8 size,
    okFlag := decide (offset = wrap 8 offset) && decide (size = wrap 8 size) && ok }

namespace OffsetBitBlock

/-- `MaskInValue(original, new)`:
`(original & ~(MaskToNBits(~ValueType{0}, size_) << offset_)) | (new << offset_)`,
every intermediate evaluated at the promoted width and the results cast to `ValueType`. -/
def maskInValue (W offset size orig new : Nat) : Nat :=
  let A := arithW W
  let ones := wrap W (notW A 0)
  let originalMask := wrap W (notW A (shl A (maskToNBits W ones size) offset))
  wrap W ((orig &&& originalMask) ||| shl A new offset)

/-- `ReadUInt()`: `MaskToNBits(bit_block_.ReadUInt(), offset_ + size_) >> offset_`. -/
def readUInt (ob : OffsetBitBlock) : Option Nat :=
  if ob.bb.c < ob.offset + ob.size ∨ ¬ ob.okFlag then none
  else match ob.bb.readUInt with
    | none => none
    | some x => some (wrap ob.bb.W (maskToNBits ob.bb.W x (ob.offset + ob.size) >>> ob.offset))

/-- `WriteUInt(value)`: read-modify-write of the whole underlying block. -/
def writeUInt (ob : OffsetBitBlock) (v : Nat) : Option OffsetBitBlock :=
  if v ≠ maskToNBits ob.bb.W v ob.size ∨ ¬ ob.okFlag then none
  else match ob.bb.readUInt with
    | none => none
    | some x =>
      match ob.bb.writeUInt (maskInValue ob.bb.W ob.offset ob.size x v) with
      | none => none
      | some bb' => some { ob with bb := bb' }

end OffsetBitBlock

/-- The `BitViewType` of a view: a `BitBlock` directly (field of a `struct`) or an
`OffsetBitBlock` (field of a `bits`). -/
inductive Buf
  | direct (b : BitBlock)
  | offset (ob : OffsetBitBlock)
  deriving Repr

namespace Buf
def bitBlock : Buf → BitBlock
  | direct b => b
  | offset ob => ob.bb
/-- Width of `BitViewType::ValueType`. -/
def W (b : Buf) : Nat := b.bitBlock.W
def ok : Buf → Bool
  | direct b => b.ok
  | offset ob => ob.okFlag
def sizeInBits : Buf → Nat
  | direct b => b.c
  | offset ob => ob.size
def readUInt : Buf → Option Nat
  | direct b => b.readUInt
  | offset ob => ob.readUInt
def writeUInt : Buf → Nat → Option Buf
  | direct b, v => (b.writeUInt v).map direct
  | offset ob, v => (ob.writeUInt v).map offset
def bytes (b : Buf) : List Nat := b.bitBlock.bytes
end Buf

/-- The `BitViewType` object a generated structure hands to the view of a `w`-bit field:
the `BitBlock` itself for a field of a `struct` (`direct`, then `o = 0` and `w = c`), or
`bit_block.GetOffsetStorage(o, w)` for a field at bit `o` of a `bits`. -/
def fieldBuf (direct : Bool) (bb : BitBlock) (o w : Nat) : Buf :=
  if direct then .direct bb else .offset (bb.offsetStorage o w)

/-! ### Views -/

/-- Scalar view kinds.  `enum uw signed`: `EnumView` of an `enum class : [u]int<uw>_t`. -/
inductive Ty
  | uint | int | bcd | flag | float
  | enum (uw : Nat) (signed : Bool)
  deriving DecidableEq, Repr

structure View where
  ty : Ty
  kBits : Nat
  buf : Buf
  deriving Repr

/-- The view a generated structure returns for a `w`-bit field of type `ty`. -/
def fieldView (ty : Ty) (direct : Bool) (bb : BitBlock) (o w : Nat) : View :=
  { ty := ty, kBits := w, buf := fieldBuf direct bb o w }

/-- `IntView::ConvertToSigned`, `EMBOSS_SYSTEM_IS_TWOS_COMPLEMENT` branch:
`static_cast<ValueType>(data << (VW - kBits)) >> (VW - kBits)`; `data` has the buffer's
value type (width `BW`, promoted), `ValueType` is the `VW`-bit signed type; `>>` on a
negative value is an arithmetic shift (floor division). -/
def convertToSignedTwos (BW kBits data : Nat) : Int :=
  let VW := leastWidth kBits
  let shifted := shl (arithW BW) data (VW - kBits)
  toSigned VW shifted / ((2 ^ (VW - kBits) : Nat) : Int)

/-- `IntView::ConvertToSigned`, portable branch (`EMBOSS_SYSTEM_IS_TWOS_COMPLEMENT` = 0).
`none`: `EMBOSS_CHECK(false)` (1-bit field holding a value other than 0/1). -/
def convertToSignedPortable (BW kBits data : Nat) : Option Int :=
  let VW := leastWidth kBits
  if kBits = 1 then
    if data = 0 then some 0 else if data = 1 then some (-1) else none
  else
    let A := arithW BW
    let signBit := wrap BW (shl A 1 (kBits - 1))
    let mask := wrap BW (subW A signBit 1)
    let dataMod := mask &&& data
    let resultSignBit : Int := toSigned VW ((data &&& signBit) >>> 1)
    -- `data_mod2_to_n - result_sign_bit - result_sign_bit`, converted to `ValueType`
    some (toSigned VW (ofInt VW ((dataMod : Int) - resultSignBit - resultSignBit)))

def convertToSigned (p : Path) (BW kBits data : Nat) : Option Int :=
  match p with
  | .opt => some (convertToSignedTwos BW kBits data)
  | .noopt => convertToSignedPortable BW kBits data

/-- Loop of `BcdView::ConvertToBinary` (`result += ((v >> shift) & 0xf) * multiplier;
multiplier *= 10`), `fuel` iterations starting at `shift`. -/
def bcdToBinaryAux (VW v : Nat) : Nat → Nat → Nat → Nat → Nat
  | 0, _, result, _ => result
  | fuel + 1, shift, result, mult =>
    bcdToBinaryAux VW v fuel (shift + 4)
      (wrap VW (result + mulW (arithW VW) ((v >>> shift) &&& 0xf) mult))
      (mulW VW mult 10)

/-- `BcdView::ConvertToBinary(ValueType bcd_value)`; the loop runs `⌈kBits/4⌉` times. -/
def bcdToBinary (kBits v : Nat) : Nat :=
  bcdToBinaryAux (leastWidth kBits) (wrap (leastWidth kBits) v) ((kBits + 3) / 4) 0 0 1

/-- Loop of `BcdView::ConvertToBcd` (`bcd |= (value % 10) << shift; value /= 10`). -/
def binaryToBcdAux (VW : Nat) : Nat → Nat → Nat → Nat → Nat
  | 0, _, _, acc => acc
  | fuel + 1, shift, value, acc =>
    binaryToBcdAux VW fuel (shift + 4) (value / 10)
      (wrap VW (acc ||| shl (arithW VW) (value % 10) shift))

def binaryToBcd (kBits v : Nat) : Nat :=
  binaryToBcdAux (leastWidth kBits) ((kBits + 3) / 4) 0 v 0

/-- `MaxBcd<ValueType>(bits)`:
`bits < 4 ? (1 << bits) - 1 : 10 * (MaxBcd<ValueType>(bits - 4) + 1) - 1`. -/
def maxBcd (VW : Nat) : Nat → Nat
  | bits + 4 => wrap VW (10 * (maxBcd VW bits + 1) - 1)
  | bits => wrap VW (shl 32 1 bits - 1)

/-- `IsBcd<ValueType>(x)`: evaluated at `unsigned` when `ValueType` is narrower, else
`((~x - (~0 / 0xf * 0x6)) & x & (~0 / 0xf * 0x8)) == 0`. -/
def isBcd (W x : Nat) : Bool :=
  let E := arithW W
  let ones := notW E 0
  (subW E (notW E x) (mulW E (ones / 0xf) 0x6) &&& x &&& mulW E (ones / 0xf) 0x8) == 0

/-- C++ integer type of a `CouldWriteValue`/`TryToWrite` argument. -/
structure IntT where
  signed : Bool
  width : Nat
  deriving Repr, DecidableEq

def IntT.holds (t : IntT) (v : Int) : Bool :=
  if t.signed then decide (-(2 ^ (t.width - 1) : Nat) ≤ v ∧ v < (2 ^ (t.width - 1) : Nat))
  else decide (0 ≤ v ∧ v < (2 ^ t.width : Nat))

namespace View

def VW (v : View) : Nat := leastWidth v.kBits
def path (v : View) : Path := v.buf.bitBlock.path

/-- `IsComplete()`: `buffer_.Ok() && buffer_.SizeInBits() >= kBits`
(`FlagView`: `SizeInBits() > 0`). -/
def isComplete (v : View) : Bool :=
  match v.ty with
  | .flag => v.buf.ok && decide (v.buf.sizeInBits > 0)
  | _ => v.buf.ok && decide (v.buf.sizeInBits ≥ v.kBits)

/-- Conversion of the raw unsigned block value to the view's logical value
(as an integer; `Float`: the bit pattern; `Flag`: 0/1; enums: the enumerator value).
`none`: a runtime check fails. -/
def decode (v : View) (raw : Nat) : Option Int :=
  match v.ty with
  | .uint => some (wrap v.VW raw : Nat)
  | .int => convertToSigned v.path v.buf.W v.kBits raw
  | .bcd => some (bcdToBinary v.kBits raw : Nat)
  | .flag => some (if raw ≠ 0 then 1 else 0)
  | .float => some (wrap v.kBits raw : Nat)
  | .enum uw false => some (wrap uw raw : Nat)
  | .enum uw true => some (toSigned uw raw)

/-- `Ok()`. -/
def ok (v : View) : Bool :=
  v.isComplete &&
    match v.buf.readUInt with
    | none => false
    | some raw =>
      match v.ty with
      | .bcd => isBcd v.buf.W raw
      | _ => true

/-- `Read()` (for `BcdView`: requires `Ok()`); `none`: a runtime check fails. -/
def read (v : View) : Option Int :=
  match v.buf.readUInt with
  | none => none
  | some raw =>
    match v.ty with
    | .bcd => if v.ok then v.decode raw else none
    | _ => v.decode raw

/-- `UncheckedRead()` for complete views (same conversion without the checks). -/
def uncheckedRead (v : View) : Option Int :=
  match v.buf.readUInt with
  | none => none
  | some raw => v.decode raw

/-- `CouldWriteValue(value)` with `value` of C++ type `t` (all `Parameters::ValueIsOk`
are `AllValuesAreOk` here; `[requires]` is the business of C01). -/
def couldWrite (v : View) (t : IntT) (x : Int) : Bool :=
  match v.ty with
  | .uint =>
    let A := arithW v.VW
    -- value >= 0 && uint64(value) <= ((ValueType(1) << (kBits - 1)) << 1) - 1
    decide (0 ≤ x) &&
      decide (ofInt 64 x ≤ subW A (shl A (shl A 1 (v.kBits - 1)) 1) 1)
  | .int =>
    let A := arithW v.VW
    let lo : Int :=
      if v.kBits = 1 then -1 else toSigned A (shl A 1 (v.kBits - 2)) * -2
    let hi : Int :=
      if v.kBits = 1 then 0 else (toSigned A (shl A 1 (v.kBits - 2)) - 1) * 2 + 1
    (!t.signed || decide (lo ≤ x)) && decide (x ≤ hi)
  | .bcd => decide (x.toNat ≤ maxBcd v.VW v.kBits) && decide (0 ≤ x)
  | .flag => true
  | .float => true
  | .enum uw signed =>
    let BW := v.buf.W
    -- `ToBitViewValue(value)`: through the unsigned counterpart of the underlying type,
    -- then to `BitViewType::ValueType` (zero-extension or truncation)
    let bv := wrap BW (ofInt uw x)
    -- `static_cast<ValueType>(ToBitViewValue(value))`
    let back : Int := if signed then toSigned uw bv else (wrap uw bv : Nat)
    decide (x = back) &&
      (decide (v.kBits = BW) ||
        decide (bv < shl (arithW BW) (shl (arithW BW) 1 (v.kBits - 1)) 1))

/-- The raw unsigned value handed to `buffer_.WriteUInt` by `TryToWrite(value)`. -/
def encode (v : View) (x : Int) : Nat :=
  match v.ty with
  | .uint => ofInt v.VW x
  | .int => maskToNBits v.buf.W (ofInt v.buf.W x) v.kBits
  | .bcd => binaryToBcd v.kBits (ofInt v.VW x)
  | .flag => if x ≠ 0 then 1 else 0
  | .float => ofInt v.kBits x
  | .enum uw _ => wrap v.buf.W (ofInt uw x)

/-- Result of `TryToWrite`. -/
inductive WriteResult
  | refused                      -- returned false, nothing touched
  | checkFailed                  -- an EMBOSS_CHECK tripped
  | written (v : View)           -- returned true
  deriving Repr

/-- `TryToWrite(value)`: `if (!CouldWriteValue(value)) return false;
if (!IsComplete()) return false; buffer_.WriteUInt(...); return true;`. -/
def tryToWrite (v : View) (t : IntT) (x : Int) : WriteResult :=
  if ¬ v.couldWrite t x then .refused
  else if ¬ v.isComplete then .refused
  else match v.buf.writeUInt (v.encode x) with
    | none => .checkFailed
    | some b' => .written { v with buf := b' }

end View

/-! ### A field inside the structure's backing store -/

/-- `backing_.GetOffsetStorage(p, n)` as the generated field accessor uses it: the `n` bytes
at byte offset `p` of the structure's buffer, or no storage (a default-constructed, incomplete
view) when the buffer is too short. -/
def containerOf (store : List Nat) (p n : Nat) : Option (List Nat) :=
  if p + n ≤ store.length then some ((store.drop p).take n) else none

/-- The sub-buffer *aliases* bytes `[p, p + n)` of the store: the store after the container's
bytes became `bytes'`. -/
def storeAfter (store : List Nat) (p : Nat) (bytes' : List Nat) : List Nat :=
  store.take p ++ bytes' ++ store.drop (p + bytes'.length)

inductive StoreWrite
  | refused
  | checkFailed
  | written (store' : List Nat)
  deriving Repr, DecidableEq

/-- `structure_view.field().TryToWrite(x)` for a field whose `c`-bit container sits at byte
`p` of the structure's buffer `store`. -/
def storeTryToWrite (store : List Nat) (p : Nat) (order : ByteOrder) (path : Path) (c : Nat)
    (ty : Ty) (direct : Bool) (o w : Nat) (t : IntT) (x : Int) : StoreWrite :=
  match containerOf store p (c / 8) with
  | none => .refused
  | some bytes =>
    match (fieldView ty direct { order := order, path := path, c := c, bytes := bytes } o w).tryToWrite t x with
    | .refused => .refused
    | .checkFailed => .checkFailed
    | .written v' => .written (storeAfter store p v'.buf.bytes)

end Emboss.Scalar
