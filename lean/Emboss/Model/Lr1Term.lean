/-
Termination analysis of the shift-reduce driver over a given table (C08_terminates).

`Parser.parse` consumes a token per Shift, so it can only run forever through an infinite
sequence of Reduce steps at a fixed cursor, i.e. with a fixed lookup key `o` (`some a` for the
symbol under the cursor, `none` for a client token that carries the end-of-input marker).  What
the reductions do while a given stack entry stays in place depends only on that entry's state
(and on the state directly below it): `summ` computes that *summary* by running the table —

* `summ A o f none s`      — `s` is the state on top of the stack ("E"): the reductions performed
                             until the entry of `s` itself must be popped, or a non-Reduce action
                             is reached;
* `summ A o f (some u) s`  — `s` is on top, directly above an entry with state `u` ("F"): the same,
                             until the entry of `u` must be popped (the slot above `u` may be
                             re-filled any number of times through `goto[u]`).

`termOK A` runs the analysis for every state, every successor state and every key of that
successor's action row (for any other key the first action is an `Error`).  The theorem
`C08_terminates` (Lemmas/Lr1Term.lean) shows that a table that passes never loops, on any input.
-/
import Emboss.Model.Lr1
namespace Emboss.Lr1

inductive Summ where
  /-- a Shift / Accept / Error / Python exception is reached while the entry is still there -/
  | stop
  /-- a `Reduce pi` is reached that must pop `r ≥ 1` entries starting with the entry itself -/
  | pend (pi : Nat) (r : Nat)
  /-- analysis budget exhausted -/
  | diverge
deriving DecidableEq, Repr

/-- lookup key of `parse` at cursor `i`: `None` for a client end-of-input token -/
def keyAt (A : Automaton) (w : List Token) (i : Nat) : Option Nat :=
  if clientEoi A w i then none else some (lookahead A w i)

def Automaton.actionAt (A : Automaton) (s : Nat) : Option Nat → Action
  | none => A.defaultAction s
  | some a => A.actionOf s a

def summ (A : Automaton) (o : Option Nat) : Nat → Option Nat → Nat → Summ
  | 0, _, _ => .diverge
  | f + 1, none, s =>
    match A.actionAt s o with
    | .reduce pi =>
      match A.prods[pi]? with
      | none => .stop
      | some p =>
        if p.rhs.length = 0 then
          match A.gotoOf s p.lhs with
          | none => .stop
          | some s1 => summ A o f (some s) s1
        else .pend pi p.rhs.length
    | _ => .stop
  | f + 1, some u, s =>
    match summ A o f none s with
    | .pend pi r =>
      if r = 1 then
        match A.prods[pi]? with
        | none => .stop
        | some p =>
          match A.gotoOf u p.lhs with
          | none => .stop
          | some s2 => summ A o f (some u) s2
      else .pend pi (r - 1)
    | x => x

/-- states that `parse` can push on top of an entry with state `u` -/
def Automaton.succs (A : Automaton) (u : Nat) : List Nat :=
  (match A.row u with
   | some r => r.filterMap (fun e => match e.2 with | .shift s => some s | _ => none)
   | none => []) ++ ((A.goto[u]?).getD []).map (·.2)

def Automaton.keysOf (A : Automaton) (s : Nat) : List Nat :=
  match A.row s with
  | some r => r.map (·.1)
  | none => []

def Automaton.nStates (A : Automaton) : Nat := max A.action.size A.goto.size

/-- budget of one summary computation (nesting depth + chain length; real tables need a handful) -/
def Automaton.termFuel (A : Automaton) : Nat := 2 * A.nStates + 64

def TermOK (A : Automaton) : Prop :=
  (∀ a ∈ A.keysOf 0, summ A (some a) A.termFuel none 0 ≠ .diverge) ∧
  ∀ u < A.nStates, ∀ s ∈ A.succs u, ∀ a ∈ A.keysOf s, summ A (some a) A.termFuel (some u) s ≠ .diverge

instance (A : Automaton) : Decidable (TermOK A) := by unfold TermOK; infer_instance

def termOK (A : Automaton) : Bool := decide (TermOK A)

/-- first (state below, state, key) whose summary does not come out (diagnostics) -/
def termWhy (A : Automaton) : Option (Option Nat × Nat × Nat) :=
  match (A.keysOf 0).find? (fun a => summ A (some a) A.termFuel none 0 == .diverge) with
  | some a => some (none, 0, a)
  | none =>
    (List.range A.nStates).findSome? fun u =>
      (A.succs u).findSome? fun s =>
        ((A.keysOf s).find? (fun a => summ A (some a) A.termFuel (some u) s == .diverge)).map
          (fun a => (some u, s, a))

end Emboss.Lr1
