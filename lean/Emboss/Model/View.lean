/-
Impl model `G` of generated C++ structure views (C01 / C04 / C20).

Mirrors `compiler/back_end/cpp/generated_code_templates` + `header_generator.py` +
`runtime/cpp/emboss_memory_util.h` / `emboss_prelude.h` / `emboss_array_view.h`:

  * a structure view = definition + (maybe uninitialised) parameters + backing storage;
  * `has_f()` = the field's existence condition evaluated in `Maybe`;
  * the accessor `f()` yields real storage iff `has_f().ValueOr(false)`, every argument of a
    parameterised type is known, and size/offset are known and non-negative; the storage is
    `GetOffsetStorage(offset, size)` — clamped to the bytes that are there (`ContiguousBuffer`)
    or `ok ∧ offset+size ≤ container` (`BitBlock`/`OffsetBitBlock`); otherwise a null view;
  * bit-addressed types inside byte structures read through
    `BitBlock<ByteOrderer<buffer>, N>`: usable iff the buffer has exactly `N/8` bytes;
  * leaf `Ok()` = `IsComplete() ∧ ValueIsOk(UncheckedRead())` (+ `IsBcd` for `Bcd`);
  * virtual field `Ok()` = `MaybeRead().Known() ∧ ValueIsOk(..)` (independent of `has_`);
  * alias `a()` = `has_a().ValueOrDefault() ? target() : null`;
  * `IsComplete()` = `backing.Ok() ∧ $size.Ok() ∧ backing.Size ≥ $size`;
  * `Ok()` = `IsComplete() ∧ parameters initialised ∧ ∀ field: has known ∧ (has → field Ok) ∧ [requires]`;
  * arrays: `ElementCount = size / element`, `Ok` needs `size % element = 0` and every element Ok.

Field references are resolved through an *oracle* for "the previous fuel level"; `G (n+1) =
step (G n)` and `G 0` knows nothing.  `fuelOK` is a static, buffer-independent check that a
given fuel resolves every reference of a structure (the driver prints `out-of-fuel` otherwise).
No imports outside `Emboss.Model.*`.
-/
import Emboss.Model.Expr
namespace Emboss.View

/-! ### storage -/

/-- Backing storage of a view.  `bytes none` = null `ContiguousBuffer`; `bytes (some d)` = the
bytes that are really there (already clamped).  `bits v n` = a `BitBlock`/`OffsetBitBlock` of
`n` bits whose value is `v` when it is Ok (`none` = not Ok: null, truncated, or out of range). -/
inductive Storage where
  | bytes (d : Option (List Nat))
  | bits (v : Option Nat) (n : Nat)
  deriving DecidableEq, Repr, Inhabited

/-- `GetOffsetStorage(off, size)`. -/
def Storage.sub : Storage → Nat → Nat → Storage
  | .bytes none, _, _ => .bytes none
  | .bytes (some d), off, size => .bytes (some ((d.drop off).take size))
  | .bits v n, off, size =>
    .bits (if off + size ≤ n then v.map (fun x => (x >>> off) % 2 ^ size) else none) size

/-- The storage of a default-constructed (null) view in a parent of the given unit. -/
def Storage.null (unit : Nat) : Storage :=
  if unit = 8 then .bytes none else .bits none 0

/-- `backing_.Ok()` -/
def Storage.ok : Storage → Bool
  | .bytes d => d.isSome
  | .bits v _ => v.isSome

/-- `backing_.SizeInBytes()` / `SizeInBits()` -/
def Storage.size : Storage → Nat
  | .bytes none => 0
  | .bytes (some d) => d.length
  | .bits _ n => n

inductive ByteOrder where
  | le | be | null
  deriving DecidableEq, Repr, Inhabited

def decodeLE : List Nat → Nat
  | [] => 0
  | b :: r => b % 256 + 256 * decodeLE r

def decodeBytes : ByteOrder → List Nat → Nat
  | .be, d => decodeLE d.reverse
  | _, d => decodeLE d

/-- `BitBlock<ByteOrderer<buffer>, nbits>` over byte storage; bit storage passes through. -/
def Storage.adapt (bo : ByteOrder) (nbits : Nat) : Storage → Storage
  | .bytes none => .bits none nbits
  | .bytes (some d) => .bits (if d.length * 8 = nbits then some (decodeBytes bo d) else none) nbits
  | .bits v n => .bits v n

/-- `_get_adapted_cpp_buffer_type_for_field`: a bit-addressed type directly inside a byte
structure reads through a `BitBlock`; everything else uses the storage as it is. -/
def Storage.adaptFor (parentUnit targetUnit : Nat) (bo : ByteOrder) (nbits : Nat) (st : Storage) : Storage :=
  if parentUnit = 8 ∧ targetUnit ≠ 8 then st.adapt bo nbits else st

/-! ### scalars (minimal local decode; the scalar layer proper is C02's `Emboss.Model.Scalar`) -/

inductive ScalarKind where
  | uint | int | flag | bcd | float
  | enum (width : Nat) (signed : Bool)
  deriving DecidableEq, Repr, Inhabited

def toSigned (bits : Nat) (v : Nat) : Int :=
  if bits ≠ 0 ∧ v ≥ 2 ^ (bits - 1) then (v : Int) - (2 ^ bits : Nat) else (v : Int)

/-- digits of a BCD value, `nibbles` nibbles; `none` if a nibble is > 9. -/
def bcdValue : Nat → Nat → Option Nat
  | 0, _ => some 0
  | k + 1, v =>
    if v % 16 > 9 then none
    else (bcdValue k (v / 16)).map (fun r => v % 16 + 10 * r)

/-- `UncheckedRead()` as a `Val`, or `none` when the bit pattern itself is invalid (`IsBcd`). -/
def scalarDecode (k : ScalarKind) (bits : Nat) (v : Nat) : Option Val :=
  match k with
  | .uint => some (.int v)
  | .float => some (.int v)
  | .int => some (.int (toSigned bits v))
  | .flag => some (.bool (v != 0))
  | .bcd => (bcdValue ((bits + 3) / 4) v).map (fun x => .int x)
  | .enum w s => some (.int (if s then toSigned w (v % 2 ^ w) else v))

/-! ### definitions -/

inductive PType where
  /-- prelude scalar or enum: kind, `kBits`, `[requires]` validator over `$logical_value` -/
  | scalar (k : ScalarKind) (bits : Nat) (req : Option Expr)
  /-- structure or bits type: name, size in bits of the `BitBlock` when a `bits` type sits in a
  byte structure (0 when no adaptation happens), constructor arguments -/
  | struct (name : String) (bits : Nat) (args : Exprs)
  /-- array: element type, element size in units of the enclosing structure -/
  | array (elem : PType) (elemSize : Nat)

inductive FieldKind where
  | phys (start size : Expr) (ty : PType) (bo : ByteOrder)
  | virt (value : Expr) (req : Option Expr)
  | alias (target : List String)

structure Field where
  name : String
  anon : Bool
  cond : Expr
  kind : FieldKind

structure StructDef where
  name : String
  unit : Nat
  params : List String
  fields : List Field
  requires : Option Expr
  /-- name of the `$size_in_bytes` / `$size_in_bits` field -/
  sizeField : String

structure Module where
  structs : List StructDef

def Module.find (m : Module) (name : String) : Option StructDef :=
  m.structs.find? (fun s => s.name == name)

def StructDef.field (sd : StructDef) (name : String) : Option Field :=
  sd.fields.find? (fun f => f.name == name)

/-- A structure view. -/
structure SView where
  sd : StructDef
  params : Option (List Val)
  st : Storage

def lookupParam : List String → List Val → String → Option Val
  | n :: ns, v :: vs, x => if n == x then some v else lookupParam ns vs x
  | _, _, _ => none

def SView.param (w : SView) (x : String) : Option Val :=
  match w.params with
  | none => none
  | some vs => lookupParam w.sd.params vs x

/-- The view a default-constructed accessor result has. -/
def nullView (sd : StructDef) : SView :=
  { sd := sd, params := none, st := if sd.unit = 8 then .bytes none else .bits none 0 }

/-! ### the oracle and one step of resolution -/

structure Oracle where
  /-- `x().y().Ok() ? some (Read()) : none` -/
  read : SView → List String → Option Val
  /-- `x().has_y()` -/
  has : SView → List String → Option Bool
  /-- `x().y().Ok()`; the empty path is the view itself -/
  okAt : SView → List String → Bool

def Oracle.bottom : Oracle :=
  { read := fun _ _ => none, has := fun _ _ => none, okAt := fun _ _ => false }

def envOf (o : Oracle) (w : SView) (lv : Option Val) : Env :=
  { read := o.read w, param := w.param, has := o.has w, lv := lv }

def hasField (o : Oracle) (w : SView) (f : Field) : Option Bool :=
  evalBool (envOf o w none) f.cond

/-- `ValueIsOk(value)`: `(validator).ValueOr(false)` / `.ValueOrDefault()` (both false when unknown). -/
def valueIsOk (o : Oracle) (w : SView) (req : Option Expr) (v : Val) : Bool :=
  match req with
  | none => true
  | some r => evalBool (envOf o w (some v)) r == some true

/-- Storage handed to the field's view by the accessor (`none` = the null-view branch). -/
def physStorage (o : Oracle) (w : SView) (f : Field) (start size : Expr) : Option Storage :=
  match hasField o w f, evalInt (envOf o w none) size, evalInt (envOf o w none) start with
  | some true, some s, some off =>
    if 0 ≤ s ∧ 0 ≤ off then some (w.st.sub off.toNat s.toNat) else none
  | _, _, _ => none

def evalArgs (env : Env) : Exprs → Option (List Val)
  | .nil => some []
  | .cons e es =>
    match eval env e, evalArgs env es with
    | some v, some vs => some (v :: vs)
    | _, _ => none

/-- The structure view an accessor of a struct-typed physical field returns. -/
def subView (o : Oracle) (m : Module) (w : SView) (f : Field) (start size : Expr)
    (name : String) (bits : Nat) (args : Exprs) (bo : ByteOrder) : Option SView :=
  match m.find name with
  | none => none
  | some sd =>
    match evalArgs (envOf o w none) args, physStorage o w f start size with
    | some vs, some st =>
      some { sd := sd, params := some vs, st := st.adaptFor w.sd.unit sd.unit bo bits }
    | _, _ => some (nullView sd)

/-- `buffer_.SizeInBits() >= kBits` (`> 0` for `Flag`) -/
def leafSizeOk (k : ScalarKind) (bits n : Nat) : Bool :=
  if k = .flag then decide (0 < n) else decide (bits ≤ n)

/-- Leaf view over adapted storage: `Ok() ? some (Read()) : none`. -/
def leafRead (o : Oracle) (w : SView) (k : ScalarKind) (bits : Nat) (req : Option Expr)
    (st : Storage) : Option Val :=
  match st with
  | .bits (some v) n =>
    if leafSizeOk k bits n then
      match scalarDecode k bits v with
      | some x => if valueIsOk o w req x then some x else none
      | none => none
    else none
  | _ => none

def leafComplete (k : ScalarKind) (bits : Nat) (st : Storage) : Bool :=
  match st with
  | .bits (some _) n => leafSizeOk k bits n
  | _ => false

/-- `MaybeRead()` + `ValueIsOk` of a virtual field. -/
def virtRead (o : Oracle) (w : SView) (value : Expr) (req : Option Expr) : Option Val :=
  match eval (envOf o w none) value with
  | some v => if valueIsOk o w req v then some v else none
  | none => none

/-- `Ok()` of the elements `i < count` of an array over storage `st`. -/
def elemsOk (check : Storage → Bool) (st : Storage) (es : Nat) : Nat → Bool
  | 0 => true
  | i + 1 => elemsOk check st es i && check (st.sub (es * i) es)

/-- `Ok()` of a view of type `ty` over (un-adapted) storage `st` inside `w`. -/
def typeOk (o : Oracle) (m : Module) (w : SView) (bo : ByteOrder) :
    PType → Storage → Bool
  | .scalar k bits req, st =>
    (leafRead o w k bits req (st.adaptFor w.sd.unit 1 bo bits)).isSome
  | .struct name bits args, st =>
    match m.find name, evalArgs (envOf o w none) args with
    | some sd, some vs =>
      o.okAt { sd := sd, params := some vs, st := st.adaptFor w.sd.unit sd.unit bo bits } []
    | _, _ => false
  | .array elem es, st =>
    st.ok && es ≠ 0 && st.size % es = 0 && elemsOk (typeOk o m w bo elem) st es (st.size / es)

/-- `parameters_known`: every constructor argument below the type is known. -/
def argsKnown (env : Env) : PType → Bool
  | .scalar _ _ _ => true
  | .struct _ _ args => (evalArgs env args).isSome
  | .array e _ => argsKnown env e

def step (m : Module) (o : Oracle) : Oracle where
  read := fun w path =>
    match path with
    | [] => none
    | x :: rest =>
      match w.sd.field x with
      | none => none
      | some f =>
        match f.kind, rest with
        | .phys start size (.scalar k bits req) bo, [] =>
          match physStorage o w f start size with
          | some st => leafRead o w k bits req (st.adaptFor w.sd.unit 1 bo bits)
          | none => none
        | .phys start size (.struct name bits args) bo, _ :: _ =>
          match subView o m w f start size name bits args bo with
          | some w' => o.read w' rest
          | none => none
        | .virt value req, [] => virtRead o w value req
        | .alias target, _ =>
          if hasField o w f = some true then o.read w (target ++ rest) else none
        | _, _ => none
  has := fun w path =>
    match path with
    | [] => none
    | x :: rest =>
      match w.sd.field x with
      | none => none
      | some f =>
        match rest with
        | [] => hasField o w f
        | _ :: _ =>
          match f.kind with
          | .phys start size (.struct name bits args) bo =>
            match subView o m w f start size name bits args bo with
            | some w' => o.has w' rest
            | none => none
          | .alias target =>
            if hasField o w f = some true then o.has w (target ++ rest) else none
          | _ => none
  okAt := fun w path =>
    match path with
    | [] =>
      -- IsComplete()
      (match o.read w [w.sd.sizeField] with
       | some (.int sz) => w.st.ok && decide ((w.st.size : Int) ≥ sz)
       | _ => false) &&
      -- parameters initialised
      (w.sd.params.isEmpty || w.params.isSome) &&
      -- every field: presence known, present ⇒ Ok
      w.sd.fields.all (fun f =>
        match o.has w [f.name] with
        | none => false
        | some false => true
        | some true => o.okAt w [f.name]) &&
      -- [requires]
      (match w.sd.requires with
       | none => true
       | some r => evalBool (envOf o w none) r == some true)
    | x :: rest =>
      match w.sd.field x with
      | none => false
      | some f =>
        match f.kind with
        | .phys start size ty bo =>
          match ty, rest with
          | .struct name bits args, _ =>
            match subView o m w f start size name bits args bo with
            | some w' => o.okAt w' rest
            | none => false
          | _, [] =>
            match physStorage o w f start size with
            | some st => argsKnown (envOf o w none) ty && typeOk o m w bo ty st
            | none => false
          | _, _ :: _ => false
        | .virt value req =>
          match rest with
          | [] => (virtRead o w value req).isSome
          | _ => false
        | .alias target =>
          hasField o w f = some true && o.okAt w (target ++ rest)

/-- The generated-code model at a given fuel. -/
def G (m : Module) : Nat → Oracle
  | 0 => Oracle.bottom
  | n + 1 => step m (G m n)

/-! ### derived observations (what cppdrv's OBS prints) -/

def sizeOf? (o : Oracle) (w : SView) : Option Int :=
  match o.read w [w.sd.sizeField] with
  | some (.int sz) => some sz
  | _ => none

def isComplete (o : Oracle) (w : SView) : Bool :=
  match sizeOf? o w with
  | some sz => w.st.ok && decide ((w.st.size : Int) ≥ sz)
  | none => false

def rootView (sd : StructDef) (params : List Val) (buf : List Nat) : SView :=
  { sd := sd, params := some params, st := .bytes (some buf) }

/-! ### well-formedness the driver checks on every real IR (hypothesis of the C01 theorems) -/

def constInt? : Expr → Option Int
  | .const (.int k) => some k
  | .fold (.int k) _ => some k
  | _ => none

/-- In a byte structure every bit-addressed field (prelude scalar, enum, `bits` type) has a
constant size of exactly `bits/8` bytes — the compiler enforces it ("fixed-size type … cannot be
placed in field of size …"); the generated `BitBlock<…, bits>` relies on it. -/
def fieldWF (m : Module) (unit : Nat) (f : Field) : Bool :=
  match f.kind with
  | .phys _ size (.scalar _ bits _) _ =>
    unit != 8 || (match constInt? size with
                  | some s => decide (0 ≤ s) && s.toNat * 8 == bits
                  | none => false)
  | .phys _ size (.struct name bits _) _ =>
    unit != 8 ||
      (match m.find name with
       | some sd => sd.unit == 8 ||
           (match constInt? size with
            | some s => decide (0 ≤ s) && s.toNat * 8 == bits
            | none => false)
       | none => true)
  | _ => true

def structWF (m : Module) (sd : StructDef) : Bool :=
  sd.fields.all (fieldWF m sd.unit)

def moduleWF (m : Module) : Bool :=
  m.structs.all (structWF m)

/-! `moduleWF` split into the part the front end enforces and the part it does not
(`C01_moduleWF_iff`).  Both are printed by the driver for every real IR. -/

/-- the field of a byte structure holds a bit-addressed type (prelude scalar, enum, `bits`):
its size expression and the type's size in bits -/
def fixedBitsIn (m : Module) (unit : Nat) (f : Field) : Option (Expr × Nat) :=
  match f.kind with
  | .phys _ size (.scalar _ bits _) _ => if unit = 8 then some (size, bits) else none
  | .phys _ size (.struct name bits _) _ =>
    if unit = 8 then
      (match m.find name with
       | some sd => if sd.unit = 8 then none else some (size, bits)
       | none => none)
    else none
  | _ => none

/-- no fixed-size bit-addressed type sits in a field whose size is not a compile-time constant —
**not** enforced by the front end (open finding
`monotone:fixed-size-type-in-dynamically-sized-field`) -/
def fieldNoDynFixed (m : Module) (unit : Nat) (f : Field) : Bool :=
  match fixedBitsIn m unit f with
  | some (size, _) => (constInt? size).isSome
  | none => true

/-- a *constant-size* field holding a fixed-size bit-addressed type has exactly the type's size —
what `constraints.py` enforces ("fixed-size type … cannot be placed in field of size …";
C14's model: `fixedWrongField`) -/
def fieldConstMatch (m : Module) (unit : Nat) (f : Field) : Bool :=
  match fixedBitsIn m unit f with
  | some (size, bits) =>
    (match constInt? size with
     | some s => decide (0 ≤ s) && s.toNat * 8 == bits
     | none => true)
  | none => true

def moduleNoDynFixed (m : Module) : Bool :=
  m.structs.all (fun sd => sd.fields.all (fieldNoDynFixed m sd.unit))

def moduleConstMatch (m : Module) : Bool :=
  m.structs.all (fun sd => sd.fields.all (fieldConstMatch m sd.unit))

/-- fragment of `C01_ok_monotone_partial`: no array-typed fields -/
def fieldNoArray (f : Field) : Bool :=
  match f.kind with
  | .phys _ _ (.array _ _) _ => false
  | _ => true

def moduleNoArrays (m : Module) : Bool :=
  m.structs.all (fun sd => sd.fields.all fieldNoArray)

def structNoArrays (sd : StructDef) : Bool := sd.fields.all fieldNoArray

/-! ### static fuel check -/

mutual
  def exprRefs : Expr → List (List String)
    | .ref p => [p]
    | .has p => [p]
    | .fold _ _ => []
    | .op _ args => exprsRefs args
    | _ => []
  def exprsRefs : Exprs → List (List String)
    | .nil => []
    | .cons e es => exprRefs e ++ exprsRefs es
end

def optRefs : Option Expr → List (List String)
  | none => []
  | some e => exprRefs e

def ptypeRefs : PType → List (List String)
  | .scalar _ _ _ => []
  | .struct _ _ args => exprsRefs args
  | .array e _ => ptypeRefs e

def ptypeStructs : PType → List String
  | .scalar _ _ _ => []
  | .struct n _ _ => [n]
  | .array e _ => ptypeStructs e

/-- references a field's own resolution (presence, location, value) makes in its structure -/
def fieldRefs (f : Field) : List (List String) :=
  exprRefs f.cond ++
  match f.kind with
  | .phys start size ty _ => exprRefs start ++ exprRefs size ++ ptypeRefs ty
  | .virt value _ => exprRefs value
  | .alias t => [t]

/-- `need n sd path`: fuel `n` resolves `path` (value, presence and Ok-ness) in structure `sd`,
whatever the buffer. -/
def need (m : Module) : Nat → StructDef → List String → Bool
  | 0, _, _ => false
  | n + 1, sd, path =>
    match path with
    | [] =>
      sd.fields.all (fun f => need m n sd [f.name]) &&
      (optRefs sd.requires).all (fun r => need m n sd r)
    | x :: rest =>
      match sd.field x with
      | none => true
      | some f =>
        (fieldRefs f).all (fun r => need m n sd r) &&
        (match f.kind with
         | .alias t => need m n sd (t ++ rest)
         | .phys _ _ ty _ =>
           (ptypeStructs ty).all (fun s =>
             match m.find s with
             | some sd' => need m n sd' (match ty with | .struct _ _ _ => rest | _ => [])
             | none => true)
         | _ => true)

def fuelOK (m : Module) (n : Nat) (sd : StructDef) : Bool :=
  need m n sd []

end Emboss.View
