/-
Model of the desugaring done by `compiler/front_end/synthetics.py` as far as views depend on it:
`$size_in_bytes`/`$size_in_bits` = `$max(0, cond₁ ? start₁ + size₁ : 0, …)` over the physical
fields in source order, and `$next` = `start + size` of the previous physical field.  The driver
checks (op `IR`) that the `$size_in_*` expression of every structure of the real IR is, up to the
constant-folding annotations, exactly `synthSize`.
-/
import Emboss.Model.View
namespace Emboss.View

def sizeClause (c s z : Expr) : Expr :=
  .op .choice (.cons c (.cons (.op .add (.cons s (.cons z .nil))) (.cons (.const (.int 0)) .nil)))

def sizeClauses : List Field → Exprs
  | [] => .nil
  | f :: fs =>
    match f.kind with
    | .phys start size _ _ => .cons (sizeClause f.cond start size) (sizeClauses fs)
    | _ => sizeClauses fs

def synthSize (fs : List Field) : Expr :=
  .op .max (.cons (.const (.int 0)) (sizeClauses fs))

/-- `$next` in the start of a field that follows a physical field located at `[start, start+size)` -/
def synthNext (prevStart prevSize : Expr) : Expr :=
  .op .add (.cons prevStart (.cons prevSize .nil))

mutual
  /-- remove the constant-folding annotations -/
  def stripFolds : Expr → Expr
    | .fold _ orig => stripFolds orig
    | .op f args => .op f (stripFoldsList args)
    | e => e
  def stripFoldsList : Exprs → Exprs
    | .nil => .nil
    | .cons e es => .cons (stripFolds e) (stripFoldsList es)
end

mutual
  def exprBEq : Expr → Expr → Bool
    | .const a, .const b => a == b
    | .fold a x, .fold b y => a == b && exprBEq x y
    | .ref p, .ref q => p == q
    | .param a, .param b => a == b
    | .has p, .has q => p == q
    | .lv, .lv => true
    | .op f xs, .op g ys => f == g && exprsBEq xs ys
    | _, _ => false
  def exprsBEq : Exprs → Exprs → Bool
    | .nil, .nil => true
    | .cons a as, .cons b bs => exprBEq a b && exprsBEq as bs
    | _, _ => false
end

/-- the structure's `$size_in_*` field is the synthesized expression -/
def sizeIsSynth (sd : StructDef) : Bool :=
  match sd.field sd.sizeField with
  | some f =>
    match f.kind with
    | .virt value _ => exprBEq (stripFolds value) (stripFolds (synthSize sd.fields))
    | _ => false
  | none => false

/-! ### constant-folding annotations that are closed constants

A decidable class of annotations whose exactness needs no range reasoning: the annotated node's
*source* expression (annotations stripped) is a closed constant expression — it evaluates, to the
annotated literal, in the environment that knows nothing.  (All-static structures, and the static
clauses of structures with dynamic parts, are of this kind; a literal derived from a *range* —
e.g. the size of a structure whose last field is unconditional but follows a conditional one — is
not.)  The driver reports per IR for how many structures `structClosedFolds` holds
(`C01_sizeCovers_of_closed_folds`: for those `SizeCovers` is a theorem, not a hypothesis). -/

def emptyEnv : Env :=
  { read := fun _ => none, param := fun _ => none, has := fun _ => none, lv := none }

mutual
  def closedFolds : Expr → Bool
    | .fold v orig =>
      (match eval emptyEnv (stripFolds orig) with
       | some v' => v' == v
       | none => false)
    | .op _ args => closedFoldsList args
    | _ => true
  def closedFoldsList : Exprs → Bool
    | .nil => true
    | .cons e es => closedFolds e && closedFoldsList es
end

def fieldClosedFolds (f : Field) : Bool :=
  closedFolds f.cond &&
  match f.kind with
  | .phys start size _ _ => closedFolds start && closedFolds size
  | _ => true

/-- size expression = annotated `synthSize`, all annotations in it and in the fields' conditions
and locations are closed constants -/
def structClosedFolds (sd : StructDef) : Bool :=
  match sd.field sd.sizeField with
  | some fs =>
    match fs.kind with
    | .virt value none =>
      exprBEq (stripFolds value) (stripFolds (synthSize sd.fields)) && closedFolds value &&
        sd.fields.all fieldClosedFolds
    | _ => false
  | none => false

/-! ### the two shapes of a per-field test in the generated `Ok()` (`header_generator.py:
_generate_optimized_ok_method_body`) -/

/-- `ok_method_test`: `if (!has_f().Known()) return false; if (has_f().ValueOrDefault() && !f().Ok())
return false;` -/
def naiveOkTest (has : Option Bool) (fieldOk : Bool) : Bool :=
  match has with
  | none => false
  | some false => true
  | some true => fieldOk

/-- `ok_method_switch_block` restricted to one case: `if (!discrim.Known()) return false;
switch (discrim) { case label: if (!f().Ok()) return false; break; default: break; }` -/
def switchOkTest (discrim : Option Val) (label : Int) (fieldOk : Bool) : Bool :=
  match discrim with
  | some (.int d) => if d = label then fieldOk else true
  | _ => false

/-- `_get_switch_candidate`: an equality with exactly one compile-time-constant integer side. -/
def switchCandidate : Expr → Option (Expr × Int)
  | .op .eq (.cons a (.cons b .nil)) =>
    match constInt? a, constInt? b with
    | some l, none => some (b, l)
    | none, some l => some (a, l)
    | _, _ => none
  | _ => none

end Emboss.View
