/-
C18 (round 2) — the JSON *text* layer, reading direction: a model of `json.loads` on the
language `json.dumps` writes (default separators `", "` / `": "`, `ensure_ascii=True`), i.e.
the inverse of `Dv.render` of `Emboss/Model/Json.lean`.

Strict where Python is lenient (as everywhere in the C18 model): no insignificant white space
other than the one blank `json.dumps` puts after `,` and `:`, no floats/exponents, no lone
surrogates (a Lean `String` cannot hold them), escapes `\" \\ \/ \b \f \n \r \t \uXXXX` only,
raw control characters inside strings rejected (`json.loads` is strict about those too).

String bodies are decoded in two stages like `json.decoder.py_scanstring`: the body is scanned
into UTF-16 code units / code points (`scanStr`), then `\uD8xx\uDCxx` pairs are joined
(`joinUnits`).  Values are parsed with fuel (one unit per value node and per list/dict element);
`PRes.outOfFuel` is a distinct outcome.
-/
import Emboss.Model.Json
namespace Emboss.Json

/-! ## strings -/

def hexVal (c : Char) : Option Nat :=
  if 48 ≤ c.toNat && c.toNat ≤ 57 then some (c.toNat - 48)
  else if 97 ≤ c.toNat && c.toNat ≤ 102 then some (c.toNat - 87)
  else if 65 ≤ c.toNat && c.toNat ≤ 70 then some (c.toNat - 55)
  else none

def hex4 (a b c d : Char) : Option Nat :=
  match hexVal a, hexVal b, hexVal c, hexVal d with
  | some a, some b, some c, some d => some (4096 * a + 256 * b + 16 * c + d)
  | _, _, _, _ => none

def simpleEsc (c : Char) : Option Nat :=
  if c = '"' then some 34
  else if c = '\\' then some 92
  else if c = '/' then some 47
  else if c = 'b' then some 8
  else if c = 'f' then some 12
  else if c = 'n' then some 10
  else if c = 'r' then some 13
  else if c = 't' then some 9
  else none

def consUnit (n : Nat) (r : Option (List Nat × List Char)) : Option (List Nat × List Char) :=
  match r with
  | some (us, rest) => some (n :: us, rest)
  | none => none

/-- Scans a string body (after the opening quote) up to and including the closing quote. -/
def scanStr : List Char → Option (List Nat × List Char)
  | [] => none
  | c :: rest =>
    if c = '"' then some ([], rest)
    else if c = '\\' then
      match rest with
      | [] => none
      | e :: rest1 =>
        if e = 'u' then
          match rest1 with
          | a :: b :: c' :: d :: rest2 =>
            match hex4 a b c' d with
            | some n => consUnit n (scanStr rest2)
            | none => none
          | _ => none
        else
          match simpleEsc e with
          | some n => consUnit n (scanStr rest1)
          | none => none
    else if c.toNat < 32 then none
    else consUnit c.toNat (scanStr rest)

def consChar (n : Nat) (r : Option (List Char)) : Option (List Char) :=
  match r with
  | some cs => some (Char.ofNat n :: cs)
  | none => none

/-- Joins surrogate pairs; lone surrogates and values beyond U+10FFFF are rejected. -/
def joinUnits : List Nat → Option (List Char)
  | [] => some []
  | u :: rest =>
    if 55296 ≤ u && u < 56320 then
      match rest with
      | l :: rest' =>
        if 56320 ≤ l && l < 57344 then consChar (65536 + (u - 55296) * 1024 + (l - 56320)) (joinUnits rest')
        else none
      | [] => none
    else if 56320 ≤ u && u < 57344 then none
    else if u < 1114112 then consChar u (joinUnits rest)
    else none

def parseStrBody (cs : List Char) : Option (String × List Char) :=
  match scanStr cs with
  | some (us, rest) =>
    match joinUnits us with
    | some chars => some (String.ofList chars, rest)
    | none => none
  | none => none

/-! ## numbers (integers only: the IR has no floats) -/

def intCh (c : Char) : Bool := c.isDigit || c == '-'

def parseIntPrefix (cs : List Char) : Option (Int × List Char) :=
  match parseInt (cs.takeWhile intCh) with
  | some i => some (i, cs.dropWhile intCh)
  | none => none

/-! ## values -/

inductive PRes (α : Type) where
  | ok (a : α) (rest : List Char)
  | err
  | outOfFuel
deriving Repr

mutual
def parseVal : Nat → List Char → PRes Dv
  | 0, _ => .outOfFuel
  | fuel + 1, cs =>
    match cs with
    | 'n' :: 'u' :: 'l' :: 'l' :: rest => .ok .null rest
    | 't' :: 'r' :: 'u' :: 'e' :: rest => .ok (.bool true) rest
    | 'f' :: 'a' :: 'l' :: 's' :: 'e' :: rest => .ok (.bool false) rest
    | '"' :: rest =>
      match parseStrBody rest with
      | some (s, rest') => .ok (.str s) rest'
      | none => .err
    | '[' :: ']' :: rest => .ok (.list []) rest
    | '[' :: rest =>
      match parseElems fuel rest with
      | .ok xs rest' => .ok (.list xs) rest'
      | .err => .err
      | .outOfFuel => .outOfFuel
    | '{' :: '}' :: rest => .ok (.dict []) rest
    | '{' :: rest =>
      match parseMembers fuel rest with
      | .ok kvs rest' => .ok (.dict kvs) rest'
      | .err => .err
      | .outOfFuel => .outOfFuel
    | _ =>
      match parseIntPrefix cs with
      | some (i, rest) => .ok (.int i) rest
      | none => .err
/-- One or more elements, up to and including the closing bracket. -/
def parseElems : Nat → List Char → PRes (List Dv)
  | 0, _ => .outOfFuel
  | fuel + 1, cs =>
    match parseVal fuel cs with
    | .ok d (',' :: ' ' :: rest) =>
      match parseElems fuel rest with
      | .ok ds rest' => .ok (d :: ds) rest'
      | .err => .err
      | .outOfFuel => .outOfFuel
    | .ok d (']' :: rest) => .ok [d] rest
    | .ok _ _ => .err
    | .err => .err
    | .outOfFuel => .outOfFuel
/-- One or more `"key": value` members, up to and including the closing brace. -/
def parseMembers : Nat → List Char → PRes (List (String × Dv))
  | 0, _ => .outOfFuel
  | fuel + 1, cs =>
    match cs with
    | '"' :: rest0 =>
      match parseStrBody rest0 with
      | some (k, ':' :: ' ' :: rest1) =>
        match parseVal fuel rest1 with
        | .ok d (',' :: ' ' :: rest) =>
          match parseMembers fuel rest with
          | .ok kvs rest' => .ok ((k, d) :: kvs) rest'
          | .err => .err
          | .outOfFuel => .outOfFuel
        | .ok d ('}' :: rest) => .ok [(k, d)] rest
        | .ok _ _ => .err
        | .err => .err
        | .outOfFuel => .outOfFuel
      | _ => .err
    | _ => .err
end

/-- `json.loads(text)` on the language of `json.dumps`: the whole text must be one value.
Fuel: one unit per value node and per element; a text of `n` characters has fewer than
`2 n + 2` of them. -/
def parseJsonFuel (fuel : Nat) (cs : List Char) : PRes Dv :=
  match parseVal fuel cs with
  | .ok d [] => .ok d []
  | .ok _ _ => .err
  | .err => .err
  | .outOfFuel => .outOfFuel

def parseJson (s : String) : PRes Dv := parseJsonFuel (2 * s.toList.length + 2) s.toList

/-- Fuel that `parseVal` needs for the rendering of `d`. -/
def Dv.nodes : Dv → Nat
  | .null => 1
  | .str _ => 1
  | .int _ => 1
  | .bool _ => 1
  | .list xs => 1 + nodesList xs
  | .dict kvs => 1 + nodesKvs kvs
where
  nodesList : List Dv → Nat
    | [] => 0
    | d :: ds => 1 + d.nodes + nodesList ds
  nodesKvs : List (String × Dv) → Nat
    | [] => 0
    | (_, d) :: rest => 1 + d.nodes + nodesKvs rest

/-- `IrDataSerializer.from_json(cls, text)`: `json.loads`, then `_from_dict`. -/
def fromJson (S : Schema) (c : String) (text : String) : Option Val :=
  match parseJson text with
  | .ok d _ => fromDict S c d
  | _ => none

end Emboss.Json
