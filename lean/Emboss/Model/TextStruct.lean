/-
Abstract model of the generated `WriteToTextStream` / `UpdateFromTextStream` of a
structure (property C06), driven by a field list, and of the part of
header_generator.py that decides which fields get a text clause.

Abstraction: a buffer is a map bit address → bit; a (leaf) field is given by where it
lives in a buffer (`loc`, `none` = `has_x()` false / not locatable), which may depend on
the buffer (dynamic offsets, sizes, existence conditions).  Its value is the bits at
that location (the scalar codecs are bijective on Ok values: C02/C03).  Aggregates are
flattened to their leaves.  Name lookup in `decode_field` is exact (unique names, C12),
so a text entry carries the field itself.
-/
namespace Emboss.Text

/-! ## header_generator.py: which fields are written, which can be read -/

structure FieldDecl where
  /-- `[text_output: "…"]` string, if the attribute is present -/
  textOutput : Option String
  /-- `ir_util.field_is_read_only` -/
  readOnly : Bool
  /-- `field.name.is_anonymous` -/
  anonymous : Bool
  deriving Repr

/-- `if not text_output_attr or text_output_attr.string_constant.text == "Emit"` -/
def FieldDecl.hasWriteClause (d : FieldDecl) : Bool :=
  match d.textOutput with
  | none => true
  | some s => s == "Emit"

/-- The `write_field_clauses` list: one clause per field of
`fields_in_dependency_order` that passes the test, in that order. -/
def writeClauses (decl : Nat → FieldDecl) (order : List Nat) : List Nat :=
  order.filter fun i => (decl i).hasWriteClause

/-- The `decode_field_clauses` list (`not is_anonymous and not read_only`). -/
def decodeClauses (decl : Nat → FieldDecl) (order : List Nat) : List Nat :=
  order.filter fun i => !(decl i).anonymous && !(decl i).readOnly

/-- Field names in the text of a buffer: clauses whose `has_x().ValueOr(false)` holds;
read-only fields only as comments (not names). -/
def textNames (decl : Nat → FieldDecl) (present : Nat → Bool) (order : List Nat) : List Nat :=
  (writeClauses decl order).filter fun i => present i && !(decl i).readOnly

/-! ## Structure round trip over an abstract buffer -/

abbrev Buf := Nat → Bool

structure FieldSem where
  /-- bit addresses of the field in this buffer; `none`: absent -/
  loc : Buf → Option (List Nat)
  /-- a write clause exists and the field is not read-only -/
  emitted : Bool

/-- Store `vs` at addresses `l` (first occurrence of an address wins). -/
def writeAt (b : Buf) (l : List Nat) (vs : List Bool) : Buf :=
  fun a => match (l.zip vs).lookup a with
    | some v => v
    | none => b a

/-- `WriteToTextStream`: (field, value bits) for every emitted, present field, in
list order (= `fields_in_dependency_order`). -/
def writeText (fs : List FieldSem) (b : Buf) : List (FieldSem × List Bool) :=
  fs.filterMap fun f =>
    if f.emitted then (f.loc b).map fun l => (f, l.map b) else none

/-- One `decode_field` step: the field must exist in the buffer *being updated*, and the
value must fit (`TryToWrite`). -/
def updateOne (b' : Buf) (e : FieldSem × List Bool) : Option Buf :=
  match e.1.loc b' with
  | some l => if l.length = e.2.length then some (writeAt b' l e.2) else none
  | none => none

/-- `UpdateFromTextStream`: entries applied left to right; `none` = returns false. -/
def update (b' : Buf) : List (FieldSem × List Bool) → Option Buf
  | [] => some b'
  | e :: es => (updateOne b' e).bind fun b'' => update b'' es

def zeroBuf : Buf := fun _ => false

end Emboss.Text
