/-
Canonical observation of a view under the model `G` — the same line cppdrv's `OBS` prints for
the real generated code (see harness/lib/cppdrv.py for the grammar).  Pure functions over
`Emboss.Model.View`; `fuel` here bounds the *nesting* of views only and running out of it is
printed as the distinct token `out-of-fuel`.
-/
import Emboss.Model.View
namespace Emboss.View

def b01 (b : Bool) : String := if b then "1" else "0"

def showVal (k : Option ScalarKind) : Val → String
  | .int i => (if k == some .float then "f" else "") ++ toString i
  | .bool b => b01 b

def showHas : Option Bool → String
  | none => "U"
  | some true => "T"
  | some false => "F"

def leafObs (k : ScalarKind) (complete : Bool) (v : Option Val) (present : Bool) : String :=
  "( o" ++ b01 v.isSome ++ " c" ++ b01 complete ++
    (match v with
     | some x => if present then " v" ++ showVal (some k) x else ""
     | none => "") ++ " )"

/-- resolve a path to the view that owns its last component -/
def resolve (o : Oracle) (m : Module) : Nat → SView → List String → Option (SView × Field)
  | 0, _, _ => none
  | _ + 1, _, [] => none
  | n + 1, w, x :: rest =>
    match w.sd.field x with
    | none => none
    | some f =>
      match rest with
      | [] => some (w, f)
      | _ :: _ =>
        match f.kind with
        | .phys start size (.struct name bits args) bo =>
          match subView o m w f start size name bits args bo with
          | some w' => resolve o m n w' rest
          | none => none
        | .alias t => resolve o m n w (t ++ rest)
        | _ => none

/- Every function below consumes one unit of `fuel` per call (mutual structural recursion on
`fuel`); the driver passes a generous constant and `out-of-fuel` is a distinct output. -/
mutual
  /-- observation of a value of type `ty` over un-adapted storage (`none` = null view) -/
  def obsType (o : Oracle) (m : Module) (w : SView) (bo : ByteOrder) (present : Bool) :
      Nat → PType → Option Storage → String
    | 0, _, _ => "out-of-fuel"
    | _ + 1, .scalar k bits req, st? =>
      let st := match st? with
        | some st => st.adaptFor w.sd.unit 1 bo bits
        | none => (Storage.null w.sd.unit).adaptFor w.sd.unit 1 bo bits
      leafObs k (leafComplete k bits st) (leafRead o w k bits req st) present
    | fuel + 1, .struct name bits args, st? =>
      match m.find name with
      | none => "bad-type"
      | some sd =>
        match st?, evalArgs (envOf o w none) args with
        | some st, some vs =>
          obsView o m fuel { sd := sd, params := some vs, st := st.adaptFor w.sd.unit sd.unit bo bits }
        | _, _ => obsView o m fuel (nullView sd)
    | fuel + 1, .array elem es, st? =>
      let st := match st? with
        | some st => st
        | none => Storage.null w.sd.unit
      let n := if es = 0 then 0 else st.size / es
      "[ o" ++ b01 (typeOk o m w bo (.array elem es) st) ++ " c" ++ b01 st.ok ++ " n" ++ toString n ++
        " e0" ++ obsElems o m w bo elem st es fuel n 0 ++ " ]"
  def obsElems (o : Oracle) (m : Module) (w : SView) (bo : ByteOrder) (elem : PType)
      (st : Storage) (es : Nat) : Nat → Nat → Nat → String
    | 0, _, _ => "out-of-fuel"
    | _ + 1, 0, _ => ""
    | fuel + 1, k + 1, i =>
      " " ++ obsType o m w bo true fuel elem (some (st.sub (es * i) es)) ++
        obsElems o m w bo elem st es fuel k (i + 1)
  /-- what the accessor of field `f` of `w` shows -/
  def obsField (o : Oracle) (m : Module) (w : SView) (f : Field) : Nat → String
    | 0 => "out-of-fuel"
    | fuel + 1 =>
      let present := hasField o w f == some true
      match f.kind with
      | .phys start size ty bo =>
        let st? := if argsKnown (envOf o w none) ty then physStorage o w f start size else none
        obsType o m w bo present fuel ty st?
      | .virt value req =>
        let v := virtRead o w value req
        "( o" ++ b01 v.isSome ++
          (match v with
           | some x => if present then " v" ++ showVal none x else ""
           | none => "") ++ " )"
      | .alias t =>
        match resolve o m 32 w t with
        | none => "bad-alias"
        | some (w', f') =>
          if present then obsField o m w' f' fuel
          else
            match f'.kind with
            | .phys _ _ ty bo => obsType o m w' bo false fuel ty none
            | _ => "bad-alias"
  def obsFields (o : Oracle) (m : Module) (w : SView) : Nat → List Field → String
    | 0, _ => "out-of-fuel"
    | _ + 1, [] => ""
    | fuel + 1, f :: fs =>
      (if f.anon then "" else
        " " ++ f.name ++ "=" ++ showHas (hasField o w f) ++ " " ++ obsField o m w f fuel) ++
        obsFields o m w fuel fs
  def obsView (o : Oracle) (m : Module) : Nat → SView → String
    | 0, _ => "out-of-fuel"
    | fuel + 1, w =>
      let next := step m o
      "{ o" ++ b01 (next.okAt w []) ++ " c" ++ b01 (isComplete o w) ++
        " k" ++ b01 (sizeOf? o w).isSome ++ " s" ++
        (match sizeOf? o w with
         | some sz => toString sz
         | none => "-") ++
        obsFields o m w fuel w.sd.fields ++ " }"
end

/-! ### array observations (what `obsType` prints as ` n<count>` and per element) -/

/-- `x().ElementCount()`: the units the accessor's (clamped) storage holds divided by the element
size — known as soon as the accessor returns real storage, also for a truncated array. -/
def arrCount (o : Oracle) (w : SView) (f : Field) : Option Nat :=
  match f.kind with
  | .phys start size (.array _ es) _ =>
    match physStorage o w f start size with
    | some st => some (if es = 0 then 0 else st.size / es)
    | none => none
  | _ => none

/-- `x()[i].Ok() ? some (x()[i].Read()) : none` for an array of scalars, `i < ElementCount()`. -/
def arrElem (o : Oracle) (w : SView) (f : Field) (i : Nat) : Option Val :=
  match f.kind with
  | .phys start size (.array (.scalar k bits req) es) bo =>
    match physStorage o w f start size with
    | some st =>
      if es ≠ 0 ∧ i < st.size / es then
        leafRead o w k bits req ((st.sub (es * i) es).adaptFor w.sd.unit 1 bo bits)
      else none
    | none => none
  | _ => none

/-! ### Equals / TryToCopyFrom (C20) -/

/-- `Equals` of two views of the same type over un-adapted storages. -/
def typeEquals (o : Oracle) (m : Module) (eqView : SView → SView → Bool) (wa wb : SView)
    (bo : ByteOrder) : PType → Storage → Storage → Bool
  | .scalar k bits req, sa, sb =>
    -- leaf: Read() == Read()  (only called when both are Ok; unreadable leaves compare unequal here)
    match leafRead o wa k bits req (sa.adaptFor wa.sd.unit 1 bo bits),
          leafRead o wb k bits req (sb.adaptFor wb.sd.unit 1 bo bits) with
    | some x, some y => x == y
    | _, _ => false
  | .struct name bits args, sa, sb =>
    match m.find name, evalArgs (envOf o wa none) args, evalArgs (envOf o wb none) args with
    | some sd, some va, some vb =>
      eqView { sd := sd, params := some va, st := sa.adaptFor wa.sd.unit sd.unit bo bits }
             { sd := sd, params := some vb, st := sb.adaptFor wb.sd.unit sd.unit bo bits }
    | _, _, _ => false
  | .array elem es, sa, sb =>
    es ≠ 0 && sa.size / es == sb.size / es &&
    (List.range (sa.size / es)).all (fun i =>
      typeEquals o m eqView wa wb bo elem (sa.sub (es * i) es) (sb.sub (es * i) es))

/-- the per-field clause of the generated `Equals` (`equals_method_test`): both `has` known, equal
presence, both present ⇒ `Equals` of the field views; virtual fields and aliases are skipped. -/
def fieldEquals (o : Oracle) (m : Module) (eqView : SView → SView → Bool) (wa wb : SView) (f : Field) : Bool :=
  match f.kind with
  | .phys start size ty bo =>
    match hasField o wa f, hasField o wb f with
    | some ha, some hb =>
      ha == hb &&
      (!ha ||
        (match (if argsKnown (envOf o wa none) ty then physStorage o wa f start size else none),
               (if argsKnown (envOf o wb none) ty then physStorage o wb f start size else none) with
         | some sa, some sb => typeEquals o m eqView wa wb bo ty sa sb
         | _, _ => false))
    | _, _ => false
  | _ => true

/-- The generated `Equals`: parameters first (`has_p` = `parameters_initialized_`; both present ⇒
`Read() == Read()`), then every physical field. -/
def viewEquals (o : Oracle) (m : Module) : Nat → SView → SView → Bool
  | 0, _, _ => false
  | fuel + 1, wa, wb =>
    (wa.sd.params.isEmpty ||
      (match wa.params, wb.params with
       | some pa, some pb => pa == pb
       | none, none => true
       | _, _ => false)) &&
    wa.sd.fields.all (fieldEquals o m (viewEquals o m fuel) wa wb)

/-- `ContiguousBuffer::TryToCopyFrom` on a shared arena (memmove semantics). -/
def arenaCopy (arena : List Nat) (srcOff dstOff n : Nat) : List Nat :=
  let chunk := (arena.drop srcOff).take n
  arena.take dstOff ++ chunk ++ arena.drop (dstOff + n)

/-- `dst.TryToCopyFrom(src)` for two views of `sd` over `arena[srcOff, srcOff+srcLen)` and
`arena[dstOff, dstOff+dstLen)`; returns the arena afterwards. -/
def tryCopy (o : Oracle) (m : Module) (sd : StructDef) (params : List Val) (arena : List Nat)
    (srcOff srcLen dstOff dstLen : Nat) : Bool × List Nat :=
  let src := rootView sd params ((arena.drop srcOff).take srcLen)
  let next := step m o
  if next.okAt src [] then
    match sizeOf? o src with
    | some sz =>
      if 0 ≤ sz ∧ sz.toNat ≤ dstLen ∧ sz.toNat ≤ srcLen then
        (true, arenaCopy arena srcOff dstOff sz.toNat)
      else (false, arena)
    | none => (false, arena)
  else (false, arena)

end Emboss.View
