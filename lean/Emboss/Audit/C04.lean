import Emboss.Properties.C04
open Emboss.View
#print axioms C04_getOffsetStorage_in_bounds
#print axioms C04_accesses_in_bounds
#print axioms C04_window_is_slice
#print axioms C04_bitblock_reads_in_bounds
#print axioms C04_virtual_write_checked_no_overflow
#print axioms C04_arith_no_overflow
#print axioms Emboss.Bounds.C04_no_overflow
#print axioms Emboss.Bounds.C04_choice_static_assert_counterexample
#print axioms Emboss.Text.C04_text_buffer_in_bounds
#print axioms Emboss.Text.C04_text_buffer_trace_is_writeInt
#print axioms Emboss.Text.C04_text_buffer_tight_counterexample
