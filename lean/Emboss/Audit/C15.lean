import Emboss.Properties.C15
open Emboss.Deps
#print axioms C15_order_topological
#print axioms C15_order_identity_if_sorted
#print axioms C15_order_perm
#print axioms C15_order_complete
#print axioms C15_terminates
#print axioms C15_tarjan_sccs
#print axioms C15_cycle_iff
#print axioms C15_ok_iff_closed
#print axioms C15_order_independent
#print axioms C15_order_least
#print axioms C15_assert_cannot_fire
#print axioms C15_groups_sorted
#print axioms C15_dependency_edges
#print axioms C15_import_edges
#print axioms C15_self_import
#print axioms C15_output_order_independent
#print axioms C15_tarjan_sccs_literal
