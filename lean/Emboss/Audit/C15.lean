import Emboss.Properties.C15
open Emboss.Deps
#print axioms C15_order_topological
#print axioms C15_order_identity_if_sorted
#print axioms C15_order_perm
#print axioms C15_order_complete
