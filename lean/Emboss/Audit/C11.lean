import Emboss.Properties.C11
open Emboss.Fmt
#print axioms C11_table_ok
#print axioms C11_total
#print axioms C11_total_subtree
#print axioms C11_tokens_preserved
#print axioms C11_render_separable
#print axioms C11_table_normal
#print axioms C11_table_comment
#print axioms C11_format_factors_partial
#print axioms C11_format_fixed_point_partial
#print axioms C11_layout_passes_idempotent
#print axioms C11_sanity_agrees
#print axioms C11_sanity_reports_first_difference
#print axioms C11_sanity_count_differs
#print axioms C11_format_factors_blank
#print axioms C11_idempotent_partial
#print axioms C11_retokenize_partial
#print axioms C11_row_retokenizes_partial
#print axioms C11_retokenize_module_partial
#print axioms C11_columnize_retokenizes_partial
#print axioms C11_retokenize_checked
