import Emboss.Properties.C11
open Emboss.Fmt
#print axioms C11_table_resolves
