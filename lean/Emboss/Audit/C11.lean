import Emboss.Properties.C11
open Emboss.Fmt
#print axioms C11_table_ok
#print axioms C11_total
#print axioms C11_total_subtree
#print axioms C11_tokens_preserved
#print axioms C11_sanity_agrees_partial
#print axioms C11_sanity_agrees_of_length
#print axioms C11_sanity_agrees_fixed
#print axioms C11_sanity_agrees_counterexample
#print axioms C11_render_separable_counterexample
#print axioms C11_idempotence_counterexample
