import Emboss.Properties.C12
open Emboss.Scope
#print axioms C12_visible_nodup
#print axioms C12_head_unique
#print axioms C12_head_missing
#print axioms C12_head_ambiguous
#print axioms C12_head_local
#print axioms C12_resolve_iff_unique
#print axioms C12_resolve_missing
#print axioms C12_resolve_ambiguous
#print axioms C12_accepted_all_resolved
#print axioms C12_all_resolved_accepted
#print axioms C12_accepted_iff_all_resolved
#print axioms C12_resolve_symbols_iff
#print axioms C12_duplicates_rejected
#print axioms C12_duplicates_rejected_pair
#print axioms C12_canonical_roundtrip
#print axioms C12_abbreviation_private
#print axioms C12_member_lookup
#print axioms C12_member_lookup_rejects
#print axioms C12_member_lookup_depth
#print axioms C12_member_lookup_total
#print axioms C12_member_lookup_total_loop
#print axioms C12_member_lookup_errors
#print axioms C12_member_lookup_names
#print axioms C12_abbreviation_tail_counterexample
#print axioms C12_self_renaming_rejected
#print axioms C12_self_recursion_counterexample
