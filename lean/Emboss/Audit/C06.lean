import Emboss.Properties.C06
open Emboss.Text
#print axioms C06_placeholder
