import Emboss.Properties.C06
open Emboss.Text
#print axioms C06_int_roundtrip
#print axioms C06_decode_no_wrap
#print axioms C06_decode_rejects
#print axioms C06_decode_accepts
#print axioms C06_tokens_roundtrip
#print axioms C06_single_line_comments_counterexample
#print axioms C06_struct_roundtrip_partial
#print axioms C06_struct_roundtrip_counterexample
#print axioms C06_emission_order
#print axioms C06_emission_after_dependencies
#print axioms C06_emission_after_transitive_dependencies
#print axioms C06_array_multiline_counterexample
