import Emboss.Properties.C09
open Emboss.Lr1
#print axioms C09_bisim_sound
#print axioms C09_equal_tables
#print axioms C09_cached_is_documented
#print axioms C09_mark_error_preserves_parse
#print axioms C09_mark_error_deterministic
#print axioms C09_mark_error_order_independent
