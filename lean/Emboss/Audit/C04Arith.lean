import Emboss.Properties.C04Arith
open Emboss.Bounds
#print axioms C04_no_overflow
#print axioms C04_choice_static_assert_counterexample
#print axioms C04_header_types
