import Emboss.Properties.C14
open Emboss.Constraints
#print axioms C14_prelude_requirements
