import Emboss.Properties.C14
open Emboss.Constraints
#print axioms C14_accept_iff_realisable_partial
#print axioms C14_prelude_requirements
#print axioms C14_prelude_types
#print axioms C14_uint_width
#print axioms C14_defaults_propagate
#print axioms C14_defaults_reach_fields
#print axioms C14_reserved_words
#print axioms C14_lookup_unqualified
#print axioms C14_attr_errors_located
#print axioms C14_field_errors_located
#print axioms C14_lookup_documented
