import Emboss.Properties.C19
open Emboss.Enum
#print axioms C19_placeholder
