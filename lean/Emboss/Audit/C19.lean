import Emboss.Properties.C19
open Emboss.Enum
#print axioms C19_underlying_type
#print axioms C19_from_name
#print axioms C19_to_name_first
#print axioms C19_is_known_iff_declared
#print axioms C19_switch_labels_distinct
#print axioms C19_enumerators_distinct
#print axioms C19_rejects_only_camel_collisions
#print axioms C19_collision_rejected
#print axioms C19_ostream
#print axioms C19_enum_case_precedence
#print axioms C19_field_accepts_in_range_partial
#print axioms C19_field_signed_full_width_partial
#print axioms C19_field_text_number_partial
#print axioms C19_field_counterexample
#print axioms C19_enum_case_other_back_end_ignored
