import Emboss.Properties.C20
open Emboss.View
#print axioms C20_equals_symmetric
#print axioms C20_copy_succeeds_iff
#print axioms C20_failed_copy_no_change
#print axioms C20_copy_post
#print axioms C20_copy_overlap
#print axioms C20_copy_dest_ok_partial
#print axioms C20_equals_ignores_padding_partial
#print axioms C20_copy_dest_equals_src_partial
#print axioms C20_equals_iff_logical_partial
#print axioms C20_equals_iff_logical_nested_partial
#print axioms C20_equals_reflexive_partial
