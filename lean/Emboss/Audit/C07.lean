import Emboss.Properties.C07
open Emboss.C07
#print axioms C07_constants_equal_front_end
#print axioms C07_static_asserts_classified
#print axioms C07_static_asserts_hold
#print axioms C07_choice_types_partial
#print axioms C07_choice_counterexample
#print axioms C07_names_distinct_partial
#print axioms C07_names_counterexample
