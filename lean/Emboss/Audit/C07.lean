import Emboss.Properties.C07
open Emboss.C07
#print axioms C07_constants_equal_front_end
#print axioms C07_static_asserts_classified
#print axioms C07_static_asserts_hold
#print axioms C07_choice_types_partial
#print axioms C07_choice_counterexample
#print axioms C07_operation_intermediate_type
#print axioms C07_mixed_signedness_counterexample
#print axioms C07_names_distinct
#print axioms C07_rejects_only_camel_collisions
#print axioms C07_camel_collisions_rejected
#print axioms C07_names_counterexample
#print axioms C07_clash_scopes
#print axioms C07_namespace_components
#print axioms C07_namespace_keywords_reserved
#print axioms C07_enable_ifs_classified
#print axioms C07_enable_if_array_members
