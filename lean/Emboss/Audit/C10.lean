import Emboss.Properties.C10
open Emboss.Tok
#print axioms C10_regex_fuel_sufficient
#print axioms C10_tokenize_fuel_sufficient
#print axioms C10_regex_sound
#print axioms C10_lossless
#print axioms C10_lossless_line
#print axioms C10_longest_match
#print axioms C10_splitlines_lossless
#print axioms C10_line_numbers
#print axioms C10_newlines
#print axioms C10_indent_balanced
#print axioms C10_indent_step
#print axioms C10_doc_table_is_code_table
#print axioms C10_table_wf
#print axioms C10_table_reserved_syms
#print axioms C10_gaps_are_whitespace
#print axioms C10_priority_is_longest
#print axioms C10_longest_match_documented
#print axioms C10_word_run
#print axioms C10_word_classes
#print axioms C10_number_classes
#print axioms C10_word_tokens
#print axioms C10_word_tokens_are_maximal_runs
#print axioms C10_tokenize_line_eq_spec
#print axioms C10_tokenize_line_eq_documented_spec
#print axioms C10_concat_with_blank
