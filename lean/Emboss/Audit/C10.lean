import Emboss.Properties.C10
open Emboss.Tok
#print axioms C10_doc_table_is_code_table
#print axioms C10_table_wf
