import Emboss.Properties.C13
open Emboss.Types
#print axioms C13_stub
