import Emboss.Properties.C13
open Emboss.Types
#print axioms C13_typecheck_iff_partial
#print axioms C13_documented_accepted
#print axioms C13_enum_ordering_counterexample
#print axioms C13_untyped_is_reported
#print axioms C13_subexpression_errors_reported
#print axioms C13_subexpression_accepted
#print axioms C13_error_located
#print axioms C13_check_iff_positions_ok_partial
#print axioms C13_enum_value_counterexample
#print axioms C13_attr_value_ok
#print axioms C13_constant_attr_mentions_no_field
#print axioms C13_constant_attr_has_one_value
#print axioms C13_module_accepted_iff_partial
#print axioms C13_total_partial
#print axioms C13_total_natural_partial
#print axioms C13_total_natural
#print axioms C13_total_counterexample
#print axioms C13_module_errors_located
#print axioms C13_reported_errors_visible
