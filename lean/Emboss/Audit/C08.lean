import Emboss.Properties.C08
open Emboss.Lr1
#print axioms C08_sound
#print axioms C08_safe
#print axioms C08_complete
#print axioms C08_unambiguous
#print axioms C08_terminates_partial
