import Emboss.Properties.C08
open Emboss.Lr1
#print axioms C08_validator_decides
