import Emboss.Properties.C08
open Emboss.Lr1
#print axioms C08_validator_sound
#print axioms C08_sound
#print axioms C08_safe
#print axioms C08_complete
#print axioms C08_unambiguous
#print axioms C08_accepts_iff
#print axioms C08_terminates
#print axioms C08_valid_not_terminating_counterexample
#print axioms C08_decides
#print axioms C08_terminates_accepting
#print axioms C08_gen_valid
#print axioms C08_gen_correct
#print axioms C08_gen_fuel_sufficient
#print axioms C08_gen_total
#print axioms C08_gen_ambiguous_conflicts
#print axioms C08_gen_closure
#print axioms C08_gen_goto
#print axioms C08_error_position
#print axioms C08_reduced_check_sound
#print axioms C08_error_position_checked
#print axioms C08_gen_error_position
#print axioms C08_error_position_unproductive_counterexample
