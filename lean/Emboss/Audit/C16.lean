import Emboss.Properties.C16
open Emboss.Pipeline
#print axioms C16_errors_nonempty
#print axioms C16_user_errors_not_synthetic
#print axioms C16_process_ir_asserts
#print axioms C16_format_total
#print axioms C16_format_errors_total
#print axioms C16_reported_errors_render
#print axioms C16_format_total_before_fix_counterexample
#print axioms C16_import_queue_terminates
#print axioms C16_import_queue_result
#print axioms C16_locations_in_file
#print axioms C16_module_ir_locations
#print axioms C16_caret_in_line
#print axioms C16_caret_in_line_inline
#print axioms C16_find_and_read_total
#print axioms C16_unreadable_file_group
#print axioms C16_embossc_exit
#print axioms C16_embossc_end_to_end
#print axioms C16_parse_error_group
