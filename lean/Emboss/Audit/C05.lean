import Emboss.Properties.C05
import Emboss.Properties.C04Arith
open Emboss.Bounds
#print axioms C05_sound
#print axioms C05_constant_exact
#print axioms C05_constant_value_agrees
#print axioms C05_bounds_functions
#print axioms C05_size_bounds
#print axioms C05_gate_implies_one_type
#print axioms C05_inv_transfer
#print axioms C05_inv_transfer_max
#print axioms C05_inv_leaves
#print axioms C05_inv_preserved
#print axioms C05_no_crash_arith
#print axioms C05_no_crash
#print axioms C05_inv_needs_canonical_counterexample
#print axioms C05_tight_linear
#print axioms C05_tight_choice_independent
#print axioms C05_tight_choice_counterexample
-- arithmetic half of C04 (Properties/C04Arith.lean), delivered and tied by this property's check
#print axioms C04_no_overflow
#print axioms C04_choice_static_assert_counterexample
#print axioms C04_header_types
