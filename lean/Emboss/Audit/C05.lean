import Emboss.Properties.C05
open Emboss.Bounds
#print axioms C05_sound
#print axioms C05_constant_exact
#print axioms C05_constant_value_agrees
#print axioms C05_bounds_functions
#print axioms C05_size_bounds
#print axioms C05_gate_implies_one_type
#print axioms C05_inv_transfer
#print axioms C05_inv_transfer_max
#print axioms C05_inv_leaves
#print axioms C05_inv_preserved
#print axioms C05_no_crash_arith
#print axioms C05_inv_needs_canonical_counterexample
#print axioms C05_tight_linear
#print axioms C05_tight_choice_counterexample
