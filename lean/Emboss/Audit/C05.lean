import Emboss.Properties.C05
open Emboss.Bounds
#print axioms C05_sound
#print axioms C05_constant_exact
#print axioms C05_constant_value_agrees
#print axioms C05_bounds_functions
