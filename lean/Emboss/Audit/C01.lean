import Emboss.Properties.C01
open Emboss.View
#print axioms C01_expr_monotone
#print axioms C01_prefix_monotone_partial
#print axioms C01_fuel_monotone
#print axioms C01_size_is_max_end
#print axioms C01_next_is_prev_end
#print axioms C01_alias_reads_target
#print axioms C01_prefix_monotone_counterexample
#print axioms C01_size_covers_present_fields
#print axioms C01_ok_monotone_partial
#print axioms C01_ok_monotone_arrays_partial
#print axioms C01_complete_fields_identical_partial
#print axioms C01_sizeCovers_of_plain
#print axioms C01_ok_switch_eq_naive
#print axioms C01_locality_partial
#print axioms C01_G_refines_R_partial
#print axioms C01_R_reported_by_G_partial
#print axioms C01_G_equals_R_partial
#print axioms C01_R_size_is_max_end_partial
#print axioms C01_array_refines_R_partial
#print axioms C01_R_array_reported_by_G_partial
#print axioms C01_constants_partial
#print axioms C01_moduleWF_iff
#print axioms C01_sizeCovers_of_exact_folds
#print axioms C01_sizeCovers_of_closed_folds
#print axioms C01_ok_monotone_closed_folds
