import Emboss.Properties.C02
open Emboss.Scalar
#print axioms C02_placeholder
