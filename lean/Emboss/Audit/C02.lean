import Emboss.Properties.C02
open Emboss.Scalar
#print axioms C02_uint_read
#print axioms C02_int_read_twos_complement
#print axioms C02_isbcd_iff_nibbles_le_9
#print axioms C02_bcd_read
#print axioms C02_flag_read
#print axioms C02_float_bits
#print axioms C02_value_type_wide_enough
#print axioms C02_le_be_paths_agree
#print axioms C02_enum_read_unsigned
#print axioms C02_enum_read_signed_partial
#print axioms C02_enum_read_signed_actual
#print axioms C02_read_eq_spec
#print axioms C02_enum_signed_narrow_counterexample
