import Emboss.Properties.C18
open Emboss.Json
#print axioms C18_roundtrip
#print axioms C18_roundtrip_ir
#print axioms C18_to_json_idempotent
#print axioms C18_json_text_roundtrip
#print axioms C18_to_json_idempotent_text
#print axioms C18_to_json_idempotent_text_ir
#print axioms C18_location_roundtrip
#print axioms C18_location_from_str_ok
#print axioms C18_bigint
#print axioms C18_set_unset
#print axioms C18_header_equal
#print axioms C18_from_dict_wf
#print axioms C18_reread_stable
#print axioms C18_from_dict_wf_ir
#print axioms Emboss.Json.Generated.schema_ok
#print axioms Emboss.Json.Generated.schema_ok_strict
